# -*- coding: utf-8 -*-
"""Beyond the listed properties: ParamMw.tla (GetParamMiddleware / PostDataMiddleware / ContextProcessor) bound to the code.

L1  TLC: PresetKept, Filled, OnlyDeclared, Typed, NoCrossTalk over every configuration x request (two names).
L2  TLC emits (configuration, request, final context); the harness builds the real application from the record, sends
    the request and compares the context the render function received with the emitted one.

No listed property says what these middlewares are FOR (C15 only says they do not disturb responses), therefore this leg
never contributes a VIOLATION line or an exit code: its outcome is recorded in the evidence of the check that hosts it
(notes.beyond_property) and printed as a `BEYOND-PROPERTY` line.
"""
import json

import tlc
from common import spec, cfgpath

TEXT = {'num': ['7'], 'text': ['x7'], 'empty': [''], 'multi': ['8', '9']}


def build(rec):
    from clastic import Application, Route, Response
    from clastic.middleware.url import GetParamMiddleware
    from clastic.middleware.form import PostDataMiddleware
    from clastic.middleware.context import ContextProcessor
    c = rec['cfg']
    types = dict((n, {'str': str, 'int': int}[t]) for n, t in c['types'].items() if t != '-')
    pmw = (GetParamMiddleware if c['src'] == 'get' else PostDataMiddleware)(types)
    cp = ContextProcessor(required=sorted(c['req']), defaults=dict((n, ['default', n]) for n in c['defs']),
                          overwrite=c['overwrite'])
    seen = {}

    def ep():
        if rec['ctxk'] == 'map':
            return dict((n, None if n in rec.get('preNone', []) else ['preset', n]) for n in rec['pre'])
        if rec['ctxk'] == 'str':
            return 'a context that is not a mapping'
        return Response('direct response')

    def render(context):
        seen['context'] = context
        return Response('rendered')
    app = Application([Route('/p', ep, render, methods=['GET', 'POST'])], middlewares=[pmw, cp])
    return app, seen


def send(app, rec):
    from werkzeug.test import Client
    from werkzeug.wrappers import BaseResponse
    q = rec['rq']
    pairs = []
    for n in sorted(q['occ']):
        for v in TEXT.get(q['occ'][n], []):
            pairs.append((n, v))
    cl = Client(app, BaseResponse)
    from werkzeug.urls import url_encode
    if q['where'] == 'query':
        return cl.open('/p', method=q['method'], query_string=url_encode(pairs))
    return cl.open('/p', method='POST', data=url_encode(pairs), content_type='application/x-www-form-urlencoded')


def project(v):
    if v is None:
        return {'k': 'none', 'v': ''}
    if isinstance(v, bool):
        return {'k': 'other', 'v': repr(v)}
    if isinstance(v, int):
        return {'k': 'int', 'v': str(v)}
    if isinstance(v, str):
        return {'k': 'str', 'v': v}
    if isinstance(v, list) and len(v) == 2 and v[0] in ('preset', 'default'):
        return {'k': v[0], 'v': v[1]}
    return {'k': 'other', 'v': repr(v)}


def check_one(rec):
    """returns None or a description of the difference"""
    try:
        app, seen = build(rec)
    except Exception as e:  # noqa
        return 'construction raised %r' % (e,)
    try:
        resp = send(app, rec)
    except Exception as e:  # noqa
        return 'request raised %r' % (e,)
    if resp.status_code != 200:
        return 'status %d' % resp.status_code
    if rec['ctxk'] == 'resp':
        return None if 'context' not in seen else 'render ran although the endpoint returned a Response'
    ctx = seen.get('context')
    if rec['ctxk'] == 'str':
        return None if ctx == 'a context that is not a mapping' else 'non-mapping context changed to %r' % (ctx,)
    if not isinstance(ctx, dict):
        return 'context is %r' % (ctx,)
    obs = dict((n, project(ctx[n]) if n in ctx else {'k': 'missing', 'v': ''}) for n in rec['ctx'])
    extra = sorted(set(ctx) - set(rec['ctx']))
    if extra:
        return 'unexpected context keys %r' % extra
    if obs != rec['ctx']:
        return 'context %r, spec %r' % (obs, rec['ctx'])
    return None


def leg(run, quick):
    out = {'spec': 'ParamMw.tla', 'gating': False}
    P = spec('ParamMw.tla')
    r = tlc.run_tlc(P, cfgpath('ParamMw_quick.cfg'), timeout=1200)
    run.add_tlc('ParamMw exhaustive (beyond the listed properties, not gating)', r)
    out['l1'] = {'distinct': r.distinct, 'complete': r.complete, 'violated': r.violated}
    e = tlc.run_tlc(P, cfgpath('ParamMw_emit.cfg'), workers=1, simulate=(400 if quick else 8000), depth=5, seed=run.seed + 151,
                    timeout=1200)
    run.add_tlc('ParamMw emission (simulate)', e)
    seen = set()
    diffs = []
    n = 0
    for rec in e.emits:
        key = json.dumps(rec, sort_keys=True)
        if key in seen:
            continue
        seen.add(key)
        n += 1
        d = check_one(rec)
        if d:
            diffs.append({'rec': rec, 'difference': d})
    out['l2'] = {'records': n, 'conform': n - len(diffs), 'differ': len(diffs), 'first_differences': diffs[:3]}
    if r.violated or diffs:
        print('BEYOND-PROPERTY: ParamMw.tla (parameter/context middlewares): %s' %
              ('TLC invariant %s violated' % r.violated if r.violated else '%d of %d replayed records differ, e.g. %s'
               % (len(diffs), n, diffs[0]['difference'][:300])))
    return out


if __name__ == '__main__':
    import sys
    import common
    common.fresh_repo_import()

    class R(object):
        seed = 0
        notes = {}

        def add_tlc(self, *a):
            pass
    print(json.dumps(leg(R(), True), indent=1)[:3000])
