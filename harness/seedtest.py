# -*- coding: utf-8 -*-
"""Evaluate a seeded breaking change (development tool, not a registered command).

usage: seedtest.py <property id> <mutant dir with patch.diff + demo.py [+ README.md]> <name> [extra check ids...]

1. confirms the change in a scratch worktree outside /repo and /verif: the repository's tests still
   pass with it, demo.py fails with it and passes without it;
2. applies it to /repo, runs `bin/check <id> quick` (and the extra ids), reverts /repo immediately;
3. stores the case under /verif/seeded/<property>-<name>/ (patch.diff, demo.py, README.md, meta.json).
"""
import json
import os
import shutil
import subprocess
import sys
import time

VERIF = os.path.dirname(os.path.dirname(os.path.abspath(__file__)))
PY = '/venv/bin/python'


def sh(cmd, cwd=None, env=None, timeout=1800):
    e = dict(os.environ)
    if env:
        e.update(env)
    p = subprocess.run(cmd, shell=True, cwd=cwd, env=e, stdout=subprocess.PIPE, stderr=subprocess.STDOUT, timeout=timeout)
    return p.returncode, p.stdout.decode('utf8', 'replace')


def main():
    pid, mdir, name = sys.argv[1], os.path.abspath(sys.argv[2]), sys.argv[3]
    extra = sys.argv[4:]
    patch = os.path.join(mdir, 'patch.diff')
    demo = os.path.join(mdir, 'demo.py')
    wt = '/tmp/seedtest-%d' % os.getpid()
    meta = {'property': pid, 'name': name, 'when': time.strftime('%Y-%m-%dT%H:%M:%SZ', time.gmtime())}
    rc, out = sh('git -C /repo worktree add -q --detach %s HEAD' % wt)
    if rc != 0:
        print(out)
        return 2
    try:
        env = {'PYTHONPATH': wt}
        rc0, out0 = sh('%s -W ignore %s' % (PY, demo), cwd=wt, env=env)
        meta['demo_passes_without_change'] = rc0 == 0
        rc, out = sh('git apply %s' % patch, cwd=wt)
        if rc != 0:
            print('patch does not apply:', out)
            meta['applies'] = False
            return 2
        meta['applies'] = True
        rc1, out1 = sh('%s -W ignore %s' % (PY, demo), cwd=wt, env=env)
        meta['demo_fails_with_change'] = rc1 != 0
        meta['demo_output_with_change'] = out1[-600:]
        rct, outt = sh('%s -m pytest -q -p no:cacheprovider -x 2>&1 | tail -3' % PY, cwd=wt, env=env)
        meta['repo_tests_with_change'] = outt.strip().splitlines()[-1] if outt.strip() else ''
        meta['repo_tests_pass_with_change'] = ' passed' in outt and ' failed' not in outt
    finally:
        sh('git -C /repo worktree remove --force %s' % wt)
        shutil.rmtree(wt, ignore_errors=True)
    confirmed = meta['demo_passes_without_change'] and meta['demo_fails_with_change'] and meta['repo_tests_pass_with_change']
    meta['confirmed'] = confirmed
    # run the checks against /repo with the change applied
    results = {}
    rc, out = sh('git -C /repo status --porcelain')
    if out.strip():
        print('/repo is not clean, refusing')
        return 2
    # keep the clean-tree evidence files
    evid_backup = {}
    for c in [pid] + extra:
        p = os.path.join(VERIF, 'evidence', '%s.json' % c)
        if os.path.exists(p):
            evid_backup[p] = open(p).read()
    try:
        rc, out = sh('git -C /repo apply %s' % patch)
        if rc != 0:
            print('cannot apply to /repo', out)
            return 2
        for c in [pid] + extra:
            t0 = time.time()
            rcc, outc = sh('bin/check %s quick' % c, cwd=VERIF, timeout=3000)
            viol = [l for l in outc.splitlines() if l.startswith('VIOLATION')]
            whats = [l.strip() for l in outc.splitlines() if l.strip().startswith('what:')]
            results[c] = {'exit': rcc, 'violation_lines': len(viol), 'first_what': whats[0][:400] if whats else None,
                          'wall_s': round(time.time() - t0, 1), 'tail': outc.strip().splitlines()[-1][:300] if outc.strip() else ''}
    finally:
        sh('git -C /repo checkout -- .')
        for p, txt in evid_backup.items():
            with open(p, 'w') as f:
                f.write(txt)
    meta['checks'] = results
    meta['detected_by'] = [c for c, r in results.items() if r['exit'] == 1]
    meta['ran'] = ['bin/check %s quick (with the change applied to /repo, reverted afterwards)' % c for c in results]
    if os.path.exists(os.path.join(mdir, 'README.md')):
        meta['needs'] = open(os.path.join(mdir, 'README.md')).read()[:1500]
    dest = os.path.join(VERIF, 'seeded', '%s-%s' % (pid, name))
    os.makedirs(dest, exist_ok=True)
    for fn in ('patch.diff', 'demo.py', 'README.md'):
        if os.path.exists(os.path.join(mdir, fn)) and os.path.abspath(mdir) != os.path.abspath(dest):
            shutil.copy(os.path.join(mdir, fn), os.path.join(dest, fn))
    with open(os.path.join(dest, 'meta.json'), 'w') as f:
        json.dump(meta, f, indent=1)
    print(json.dumps({k: meta[k] for k in ('property', 'name', 'confirmed', 'detected_by')}),
          json.dumps({c: (r['exit'], r['tail'][:120]) for c, r in results.items()}))
    return 0


if __name__ == '__main__':
    sys.exit(main())
