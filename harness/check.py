# -*- coding: utf-8 -*-
"""Entry point: check <ID> quick|thorough [--replay file]

exit 0: property held on everything explored (known findings are printed, not failed)
exit 1: VIOLATION line(s) printed
exit 2: machinery failure (never a violation)
"""
import importlib
import os
import sys
import traceback

HERE = os.path.dirname(os.path.abspath(__file__))
sys.path.insert(0, HERE)

import common  # noqa
import tlc  # noqa


def main(argv):
    if len(argv) < 2:
        print('usage: check <ID> quick|thorough [--replay file]')
        return 2
    prop = argv[0].upper()
    tier = argv[1]
    if os.environ.get('VERIF_TIER') in ('quick', 'thorough') and tier not in ('quick', 'thorough'):
        tier = os.environ['VERIF_TIER']
    replay = None
    if '--replay' in argv:
        replay = argv[argv.index('--replay') + 1]
    try:
        seed = int(os.environ.get('VERIF_SEED', '0') or 0)
    except ValueError:
        seed = 0
    try:
        mod = importlib.import_module(prop.lower())
    except ImportError:
        traceback.print_exc()
        print('no check module for %s' % prop)
        return 2
    run = common.Run(prop, tier, seed)
    try:
        common.fresh_repo_import()
        if replay:
            return mod.replay(run, replay)
        mod.check(run)
        return run.finish()
    except tlc.MachineryError:
        traceback.print_exc()
        print('MACHINERY FAILURE in %s %s (exit 2, not a violation)' % (prop, tier))
        return 2
    except Exception:
        traceback.print_exc()
        print('MACHINERY FAILURE (harness exception) in %s %s (exit 2, not a violation)' % (prop, tier))
        return 2


if __name__ == '__main__':
    sys.exit(main(sys.argv[1:]))
