# -*- coding: utf-8 -*-
"""C02 - Each injected argument comes from its one declared source.

Same specification as C01 (Inject.tla): SpecKw gives, for every parameter of every chain function,
the unique source tag (url / res / builtin / mw i phase / default / epresult).  The replay instantiates
every source with a distinct sentinel object (identity-checked), runs requests against the route, the
endpoint-returns-Response variant and the catch-all, and compares the tag of every received value with
TLC's expectation - under several PYTHONHASHSEEDs, because the generated code is assembled from sets.
Static all-requests argument: the generated chain sources (branch-free) are parsed and their call-site
keyword lists compared with the names the spec says are passed.
"""
import json

import inject_check as ic


def check(run):
    quick = run.tier == 'quick'
    run.rule = ('accepted configurations of Inject.tla replayed with sentinel objects per source; non-trivial = '
                'configuration with >= 2 distinct sources feeding parameters or a defaulted parameter whose name some '
                'source offers elsewhere')
    run.assumptions = ['value contents beyond identity (URL conversions) belong to C05',
                       'static wiring leg is skipped (reported) if sinter internals are renamed']
    ic.run_l1(run, [('Inject exhaustive (UniqueSource, AlgoPassesSame)', 'Inject_quick.cfg' if quick else 'Inject_thorough.cfg')],
              [('Inject simulation', 'Inject_sim.cfg', 300 if quick else 30000, 16)])
    recs = ic.emit(run, 'Inject emission (simulate)', 'Inject_emit.cfg', 400 if quick else 8000, 16,
                   6000 if quick else 80000)
    recs = [r for r in recs if 'ok' in r['allowed'] and r['P']]
    recs = recs[:2000 if quick else 40000]
    recs += ic.emit(run, 'Inject emission (exhaustive, accepted configurations with sources)', 'Inject_emit_ok.cfg', 0, 0,
                    3000 if quick else 60000, seed_off=9, bfs=True)
    multi = ic.emit(run, 'Inject emission (exhaustive, several provides per function)', 'Inject_emit_multi.cfg', 0, 0,
                    1500 if quick else 30000, seed_off=13, bfs=True)
    run.notes['multi_provide_configurations'] = len(multi)
    recs += multi
    late = ic.emit(run, 'Inject emission (exhaustive, defaulted parameter whose name is provided only deeper / later)',
                   'Inject_emit_late.cfg', 0, 0, 800 if quick else 20000, seed_off=17, bfs=True)
    run.notes['late_provide_configurations'] = len(late)
    recs += late
    opts = {'mode': 'C02', 'kwonly': True, 'posonly': False, 'carriers': True, 'static': True}
    hs = [0, 1, 2, 3] if quick else [0, 1, 2, 3, 4, 5, 6, 7]
    res = ic.replay_records(run, recs, opts, hs, run.seed, 'c02')
    def two_opt(r):
        cnt = {}
        for p_ in r['P']:
            if p_['d'] and p_['f'] in (r['EPF'], r['RNF']):
                cnt[p_['f']] = cnt.get(p_['f'], 0) + 1
        return any(v >= 2 for v in cnt.values())
    gaprecs = [r for r in recs if two_opt(r)]
    run.notes['posonly_gap_candidates'] = len(gaprecs)
    res += ic.replay_records(run, (gaprecs[:300 if quick else 5000] * 3) + recs[:400 if quick else 6000],
                             {'mode': 'C02', 'kwonly': False, 'posonly': True, 'carriers': True, 'static': True},
                             hs, run.seed + 7, 'c02po')

    def nontrivial(rec):
        srcs = set()
        for c in rec['calls']['main']:
            for k in c['kw']:
                srcs.add((k['src'][0], k['src'][2], k['src'][3]))
        return len(srcs) >= 2
    cov = ic.absorb(run, res, nontrivial)
    leg_fresh_url_values(run)
    cov['static_wiring_checked'] = sum(1 for r in res if r.get('info', {}).get('static'))
    cov['hashseeds'] = hs
    run.notes['replay_coverage'] = cov
    for r in recs[:3]:
        run.sample({k: r[k] for k in ('n', 'nApp', 'P', 'V', 'url', 'res', 'rres', 'hasRender', 'calls')})


def leg_fresh_url_values(run):
    """the converted URL value a function receives belongs to THIS request: an endpoint that mutates the list it got
    for a multi-segment binding must not influence what the next request receives (Pattern.tla: absent '*' -> [])"""
    import json as _json
    from clastic import Application, Response
    from werkzeug.test import Client
    from werkzeug.wrappers import BaseResponse

    def ep_multi(xs):
        seen = list(xs)
        xs.append('LEFTOVER')
        return Response(_json.dumps(seen))

    def ep_multi_int(ns):
        seen = list(ns)
        ns.extend([99, 98])
        return Response(_json.dumps(seen))
    app = Application([('/m/<xs*>', ep_multi), ('/n/<ns*int>', ep_multi_int)])
    cl = Client(app, BaseResponse)
    seq = [('/m', []), ('/m', []), ('/m/a/b', ['a', 'b']), ('/m', []), ('/m/a/b', ['a', 'b']), ('/n', []), ('/n/1/2', [1, 2]),
           ('/n', []), ('/n/1/2', [1, 2])]
    for i, (path, want) in enumerate(seq):
        got = _json.loads(cl.get(path).get_data(as_text=True))
        run.evaluations += 1
        if got != want:
            run.violation('url-value-shared-across-requests', 'request %d %s: endpoint received %r, this request\'s URL gives %r'
                          % (i, path, got, want), {'leg': 'L2', 'kind': 'fresh-url-values', 'sequence': seq[:i + 1], 'got': got})
            return
    run.traces += 1
    run.nontrivial.add('fresh-url-values')


def replay(run, path):
    import inject_worker
    with open(path) as f:
        rp = json.load(f)
    c = rp['case']
    viol, info = inject_worker.check_one(c['rec'], c['seed'], c['opts'])
    print(info)
    for sig, what, _d in viol:
        print('still violates:', sig, '-', what)
    return 1 if viol else 0
