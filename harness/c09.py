# -*- coding: utf-8 -*-
"""C09 - Error responses: right status, negotiated format, everything escaped.

L1  TLC on ErrorFmt.tla: the negotiation rule is total, picks plain text exactly when nothing is
    acceptable, never picks an unacceptable format, an exact range beats a wildcard.
L2/L3  real error responses are produced for (a) every Accept sequence TLC enumerates (<= 2 items over
    9 ranges x 4 q values, plus the absent header), (b) every exported error class raised and returned
    with default and overridden code, (c) a palette of hostile dynamic fields (markup with a unique
    marker tag, quotes, ampersands, pre-escaped text, template / format-string syntax, CDATA and comment
    terminators, attribute-breaking URLs, non-ASCII, control characters) in detail / message /
    error_type, with the default and the debug (contextual) error handler, incl. exception text, local
    variables and request paths on debug pages.  Each response is projected with independent stdlib
    parsers (json, expat, html.parser) to [status, content type, well-formed, fields found as data,
    markup originating from dynamic text] and TLC judges the record: StatusOK /\ FormatOK /\ BodyOK.
"""
import html.parser
import json
import re
import xml.dom.minidom

import tlc
import tracecheck
from common import spec, cfgpath

MARK = 'zq9x'
PALETTE = [u'<zq9x onzq9x="a">&amp;</zq9x>', u'"\'><zq9x>', u'{code} {detail!r} {0} {zq9x}', u'{#s}{zq9x}{/s}{>zq9x/}',
           u'\xfcn\xef ☃ zq9x', u'&lt;zq9x&gt; &amp;amp;', u']]><zq9x/>', u'<!--zq9x--><zq9x>', u'</title></p></pre><zq9x>',
           u'</script><zq9x>', u'http://x/" onzq9x="1', u"http://x/'><zq9x>", u'javascript:zq9x', u'plain zq9x text',
           u'a\x0bb\x1f zq9x',
           # compatibility characters that LOOK like markup (full-width / small forms): text like any other - they must reach
           # the client as they are, not folded into real < > " &
           u'\uff1czq9x onzq9x\uff1d\uff021\uff02\uff1e\uff06amp;\uff1c/zq9x\uff1e \ufe64zq9x\ufe65',
           # long, markup-dense texts (whatever is done to long fields must happen before escaping, not after)
           u'x' + u'<zq9x>&"\'' * 600, u'xx' + u'<&>' * 1500, u'xxx' + u'&<zq9x a="1">' * 400]
XML_SAFE = [p for p in PALETTE if not re.search(u'[\x00-\x08\x0b\x0c\x0e-\x1f]', p)]
VOID = set(['meta', 'link', 'br', 'hr', 'img', 'input', 'area', 'base', 'col', 'embed', 'param', 'source', 'track', 'wbr'])


class HP(html.parser.HTMLParser):
    def __init__(self):
        html.parser.HTMLParser.__init__(self, convert_charrefs=True)
        self.stack = []
        self.ok = True
        self.tags = set()
        self.attrs = set()
        self.text = []
        self.attrvals = []

    def handle_starttag(self, tag, attrs):
        self.tags.add(tag)
        for k, v in attrs:
            self.attrs.add(k)
            self.attrvals.append(v or '')
        if tag not in VOID:
            self.stack.append(tag)

    def handle_startendtag(self, tag, attrs):
        self.tags.add(tag)
        for k, v in attrs:
            self.attrs.add(k)
            self.attrvals.append(v or '')

    def handle_endtag(self, tag):
        if tag in VOID:
            return
        if tag in self.stack:
            while self.stack and self.stack[-1] != tag:
                p = self.stack.pop()
                if p not in ('p', 'li', 'td', 'th', 'tr', 'tbody', 'thead', 'option', 'dd', 'dt'):
                    self.ok = False
            self.stack.pop()
        else:
            self.ok = False

    def handle_data(self, data):
        self.text.append(data)

    def handle_comment(self, data):
        if MARK in data:
            self.tags.add('comment-with-' + MARK)


def project(status, headers, body, expected_fields):
    """-> ctype, wellformed, fields_found, alien"""
    ctype = (headers.get('Content-Type') or '').split(';')[0].strip()
    text = body.decode('utf8', 'replace')
    found = set()
    alien = set()
    well = True
    if ctype == 'application/json':
        try:
            d = json.loads(text)
            well = isinstance(d, dict)
        except ValueError:
            d, well = {}, False
        for k, v in expected_fields.items():
            if k in d and d[k] == v:
                found.add(k)
            elif k not in ('code', 'message', 'detail', 'error_type') and v in json.dumps(d, ensure_ascii=False):
                found.add(k)
            elif k not in ('code', 'message', 'detail', 'error_type') and json.dumps(v)[1:-1] in json.dumps(d):
                found.add(k)
    elif ctype == 'application/xml':
        try:
            dom = xml.dom.minidom.parseString(body)
            names = set()
            texts = {}

            def walk(n):
                if n.nodeType == n.ELEMENT_NODE:
                    names.add(n.tagName)
                    for a in (n.attributes.keys() if n.attributes else []):
                        names.add('@' + a)
                    texts[n.tagName] = ''.join(c.data for c in n.childNodes if c.nodeType in (c.TEXT_NODE, c.CDATA_SECTION_NODE))
                for c in n.childNodes:
                    walk(c)
            walk(dom)
            alien = set(n for n in names if MARK in n)
            for k, v in expected_fields.items():
                if texts.get(k) == (str(v) if not isinstance(v, str) else v):
                    found.add(k)
        except Exception:  # noqa
            well = False
    elif ctype == 'text/html':
        p = HP()
        try:
            p.feed(text)
            p.close()
        except Exception:  # noqa
            well = False
        well = well and p.ok
        alien = set(t for t in p.tags | p.attrs if MARK in t)
        alltext = ''.join(p.text)
        for k, v in expected_fields.items():
            sv = str(v) if not isinstance(v, str) else v
            if sv in alltext or any(sv in av for av in p.attrvals):
                found.add(k)
    elif ctype == 'text/plain':
        for k, v in expected_fields.items():
            sv = str(v) if not isinstance(v, str) else v
            if sv in text:
                found.add(k)
    else:
        well = False
    return ctype, well, sorted(found), sorted(alien)


def accept_header(acc):
    if not acc:
        return None
    return ', '.join('%s;q=%s' % (i['r'], {0: '0', 3: '0.3', 8: '0.8', 10: '1'}[i['q']]) for i in acc)


def error_classes():
    from clastic import errors
    out = []
    seen = set()

    def walk(c):
        for s in c.__subclasses__():
            if s not in seen:
                seen.add(s)
                if s.code and s.__module__ == 'clastic.errors' and not s.__name__.startswith('Contextual'):
                    out.append(s)
                walk(s)
    walk(errors.HTTPException)
    return sorted(out, key=lambda c: c.code)


def build(scenarios, debug):
    from clastic import Application

    def ep(idx):
        sc = scenarios[int(idx)]
        if sc.get('uncaught') is not None:
            local_secret = sc['uncaught'] + ' in a local'   # noqa  (shows up among the frame's locals on debug pages)
            raise ValueError(sc['uncaught'])
        kw = dict((k, sc[k]) for k in ('message', 'error_type', 'mimetype') if sc.get(k) is not None)
        if sc.get('code'):
            kw['code'] = sc['code']
        e = sc['cls'](sc.get('detail'), **kw)
        if sc['how'] == 'raise':
            raise e
        return e

    def boom(x):
        local_copy = x + ' (local)'   # noqa
        raise ValueError('failing for ' + x)
    return Application([('/err/<idx>', ep), ('/boom/<x>', boom)], debug=debug)


def send(app, path, accept):
    from werkzeug.test import create_environ, run_wsgi_app
    env = create_environ('/')
    env['PATH_INFO'] = path.encode('utf8').decode('latin1')
    if accept:
        env['HTTP_ACCEPT'] = accept
    else:
        env.pop('HTTP_ACCEPT', None)
    try:
        app_iter, status, headers = run_wsgi_app(app, env)
        body = b''.join(app_iter)
    except Exception as e:  # noqa  (no error response at all: an observation, judged by the trace specification)
        return -1, {}, ('exception escaped the application: %s' % type(e).__name__).encode('utf8')
    return int(status.split()[0]), dict(headers), body


def check(run):
    quick = run.tier == 'quick'
    F = spec('ErrorFmt.tla')
    run.rule = ('cases = Accept sequences enumerated by TLC x error scenarios (every exported class raised/returned, overridden '
                'code, hostile palette fields) x {default, debug} handlers; non-trivial = case with a palette field or an Accept '
                'header with at least one q<1 or wildcard item')
    run.assumptions = ['the stdlib parsers (json, expat/minidom, html.parser) are the trusted projection',
                       'XML bodies are only generated for XML-1.0-representable text', 'ties between equally acceptable formats are open',
                       'debug pages: no fixed template; only marker-bearing element/attribute names count as injected markup']
    r = tlc.run_tlc(F, cfgpath('ErrorFmt_quick.cfg' if quick else 'ErrorFmt_thorough.cfg'), timeout=3000)
    run.add_tlc('ErrorFmt negotiation (all Accept sequences)', r)
    run.exhaustive = r.complete
    if r.violated:
        run.tlc_violation('ErrorFmt', r)
    e = tlc.run_tlc(F, cfgpath('ErrorFmt_emit.cfg'), workers=1)
    run.add_tlc('ErrorFmt emission (Accept sequences <= 2 items)', e)
    accepts = [x['acc'] for x in e.emits]
    classes = error_classes()
    scenarios = []
    for c in classes:
        for how in ('raise', 'return'):
            scenarios.append({'cls': c, 'how': how, 'name': c.__name__})
        scenarios.append({'cls': c, 'how': 'raise', 'name': c.__name__, 'code': 499 if c.code < 500 else 599})
    from clastic import errors
    # errors constructed with a preset representation (mimetype=...): negotiation must still decide, and the
    # Content-Type must agree with the body
    for mt in ('application/json', 'text/html', 'application/xml'):
        scenarios.append({'cls': errors.Conflict, 'how': 'raise', 'name': 'Conflict', 'mimetype': mt})
        scenarios.append({'cls': errors.Gone, 'how': 'return', 'name': 'Gone', 'mimetype': mt, 'detail': 'preset ' + mt})
    base_n = len(scenarios)
    for i, p in enumerate(PALETTE):
        for field in ('detail', 'message', 'error_type'):
            for cls in (errors.NotFound, errors.InternalServerError, errors.ImATeapot)[:(1 if quick else 3)]:
                scenarios.append({'cls': cls, 'how': 'raise' if i % 2 else 'return', 'name': cls.__name__, field: p,
                                  'palette': True})
        scenarios.append({'cls': errors.BadRequest, 'how': 'raise', 'name': 'BadRequest', 'detail': p,
                          'message': PALETTE[(i + 1) % len(PALETTE)], 'error_type': PALETTE[(i + 2) % len(PALETTE)], 'palette': True})
        scenarios.append({'uncaught': p, 'name': 'InternalServerError', 'palette': True})
    # an uncaught exception WITHOUT a message (RuntimeError(), KeyError(), ValueError(''))
    scenarios.append({'uncaught': '', 'name': 'InternalServerError', 'palette': True})
    apps = {False: build(scenarios, False), True: build(scenarios, True)}
    recs = []
    tid = 0
    fmts = ['text/html', 'application/json', 'application/xml', 'text/plain']

    def record(debug, idx, acc, path=None):
        sc = scenarios[idx] if idx is not None else None
        st, hd, body = send(apps[debug], path or '/err/%d' % idx, accept_header(acc))
        exp = {}
        cls_name = sc['name'] if sc else 'NotFound'
        code_override = (sc.get('code') or 0) if sc else 0
        ctype_guess = (hd.get('Content-Type') or '').split(';')[0]
        # presence of fields is only required of JSON bodies ("contains code, message, detail and error_type");
        # for the other formats the property demands well-formedness and escaping, not a particular layout
        if sc and sc.get('uncaught') is None and ctype_guess == 'application/json':
            exp['code'] = code_override or sc['cls'].code
            for f in ('detail', 'message', 'error_type'):
                if sc.get(f) is not None:
                    exp[f] = sc[f]
        if st == -1:
            return {'cls': cls_name, 'code_override': code_override, 'accept': acc, 'status': -1, 'ctype': 'none',
                    'wellformed': False, 'fields_expected': sorted(exp), 'fields_found': [], 'alien': [],
                    '_debug': debug, '_idx': idx, '_path': path, '_body': body.decode('utf8', 'replace')}
        ctype, well, found, alien = project(st, hd, body, exp)
        return {'cls': cls_name, 'code_override': code_override, 'accept': acc, 'status': st, 'ctype': ctype,
                'wellformed': well, 'fields_expected': sorted(exp), 'fields_found': found, 'alien': alien,
                '_debug': debug, '_idx': idx, '_path': path, '_body': body[:600].decode('utf8', 'replace')}
    # (a) negotiation: every Accept sequence against one plain error, default handler (+ debug in thorough)
    for acc in accepts:
        for debug in ((False,) if quick else (False, True)):
            tid += 1
            recs.append(dict(record(debug, 0, acc), tid=tid))
    # (b) status: every class raised / returned / overridden, four explicit formats
    for idx in range(base_n):
        for f in fmts:
            tid += 1
            recs.append(dict(record(False, idx, [{'r': f, 'q': 10}]), tid=tid))
        for acc in ([{'r': 'image/png', 'q': 10}], [], [{'r': 'garbage', 'q': 10}]):
            tid += 1
            recs.append(dict(record(False, idx, acc), tid=tid))
    # (c) escaping: palette scenarios x formats x handlers
    for idx in range(base_n, len(scenarios)):
        sc = scenarios[idx]
        vals = [sc.get(k) for k in ('detail', 'message', 'error_type', 'uncaught') if sc.get(k)]
        for f in fmts:
            if f == 'application/xml' and any(v not in XML_SAFE for v in vals):
                continue
            for debug in (False, True):
                tid += 1
                recs.append(dict(record(debug, idx, [{'r': f, 'q': 10}]), tid=tid))
    # debug 404 pages for paths containing markup
    for p in PALETTE[:12]:
        for f in ('text/html', 'application/json', 'text/plain'):
            tid += 1
            recs.append(dict(record(True, None, [{'r': f, 'q': 10}], path=u'/nowhere/' + p.replace('/', '_')), tid=tid))
    for p in PALETTE[:12]:
        for f in ('text/html', 'application/json', 'text/plain'):
            for debug in (True, False):
                tid += 1
                r_ = record(debug, None, [{'r': f, 'q': 10}], path=u'/boom/' + p.replace('/', '_'))
                r_['cls'] = 'InternalServerError'
                recs.append(dict(r_, tid=tid))
    clean = [{k: v for k, v in r_.items() if not k.startswith('_')} for r_ in recs]
    results = tlc.run_sharded(spec('ErrorFmt_Trace.tla'), cfgpath('ErrorFmt_Trace.cfg'), clean, tag='ErrorFmt_Trace')
    acc_ids = set()
    rej = {}
    for r_ in results:
        run.states += r_.distinct or r_.generated
        run.transitions += r_.generated
        for t in tlc.tagged(r_, 'ACCEPT'):
            acc_ids.add(t[0])
        for t in tlc.tagged(r_, 'REJECT'):
            rej[t[0]] = t[1:]
    if len(acc_ids) + len(rej) != len(recs):
        raise tlc.MachineryError('ErrorFmt_Trace judged %d of %d records' % (len(acc_ids) + len(rej), len(recs)))
    run.traces += len(acc_ids)
    run.evaluations += len(recs)
    run.notes['records'] = {'total': len(recs), 'accepted': len(acc_ids), 'rejected': len(rej), 'accept_sequences': len(accepts),
                            'classes': len(classes), 'palette': len(PALETTE)}
    by = dict((r_['tid'], r_) for r_ in recs)
    for t in acc_ids:
        r_ = by[t]
        if (r_['_idx'] is not None and scenarios[r_['_idx']].get('palette')) or any(i['q'] < 10 or '*' in i['r'] for i in r_['accept']):
            run.nontrivial.add('%s:%s:%s:%s' % (r_['_debug'], r_['_idx'], json.dumps(r_['accept']), r_['_path']))
    run.sample({k: v for k, v in recs[len(recs) // 2].items() if k != '_body'})
    for t, flags in sorted(rej.items()):
        r_ = by[t]
        status_ok, format_ok, body_ok = flags
        if r_['status'] == -1:
            sig = 'no-error-response:exception-escaped:%s' % ('debug' if r_['_debug'] else 'default')
        elif not status_ok:
            sig = 'wrong-status:%s:%s' % (r_['cls'], r_['status'])
        elif not format_ok:
            sig = 'format-not-negotiated:%s' % r_['ctype']
        elif r_['alien']:
            sig = 'markup-injected:%s:%s' % (r_['ctype'], 'debug' if r_['_debug'] else 'default')
        elif not r_['wellformed']:
            sig = 'body-not-wellformed:%s:%s' % (r_['ctype'], 'debug' if r_['_debug'] else 'default')
        else:
            missing = sorted(set(r_['fields_expected']) - set(r_['fields_found']))
            sig = 'field-missing:%s:%s:%s' % (r_['ctype'], ','.join(missing), 'debug' if r_['_debug'] else 'default')
        run.violation(sig, 'error response rejected by ErrorFmt_Trace (status_ok=%s format_ok=%s body_ok=%s): %r'
                      % (status_ok, format_ok, body_ok, {k: v for k, v in r_.items() if k != '_body'}),
                      {'leg': 'L3', 'record': r_})


def replay(run, path):
    with open(path) as f:
        rp = json.load(f)
    print(json.dumps(rp['case']['record'], indent=1)[:3000])
    print('re-run `bin/check C09 quick` to re-evaluate')
    return 1
