# -*- coding: utf-8 -*-
"""C05 - URL patterns match exactly the paths their mini-language describes.

L1  TLC on Pattern_MC.tla: the stepwise matcher (one action per element decision) only accepts
    assignments that Assign()/Can() allow; MustMatch => MayMatch; strict => redirect; redirect == rewrite.
L2  TLC enumerates textual patterns with ValidPattern (Pattern_Text.tla); the harness renders each,
    calls Route(...) and compares "raises InvalidPattern".
L3  the exhaustive-strings leg: EVERY string over the 9-character alphabet up to a length bound
    (quick: 5, thorough: 6, and 7 against a pattern subset) is matched by the real
    BoundRoute.match_path against a catalogue of ~100 patterns in the three slash modes; every
    observation (matched?, converted values, with Python's own int()/float() of each segment as the
    conversion table) is judged by TLC with ObsOK() of Pattern.tla (Pattern_Trace.tla), 16 shards.
"""
import json
import os
import random
import shutil
import subprocess
import sys
from concurrent.futures import ThreadPoolExecutor

import common
import tlc
from common import spec, cfgpath

HERE = os.path.dirname(os.path.abspath(__file__))


def catalogue(seed):
    rng = random.Random(seed)
    names = ['x', 'y', 'z', 'w']
    lits = [['a'], ['5'], ['a', '5'], ['-'], ['e']]
    types = ['str', 'int', 'float']
    ops = ['', ':', '?', '*', '+']

    def bind(pos, t, op):
        if op == '' and t != 'str':
            op = ':'
        return {'k': 'bind', 'n': names[pos], 't': t, 'op': op}

    def lit(v):
        return {'k': 'lit', 'v': v}
    pats = [{'els': [], 'trail': True}]
    for trail in (False, True):
        for v in lits[:3]:
            pats.append({'els': [lit(v)], 'trail': trail})
        for t in types:
            for op in ops:
                if op == '' and t != 'str':
                    continue
                pats.append({'els': [bind(0, t, op)], 'trail': trail})
    pool = []
    for _ in range(400):
        n = rng.choice([2, 2, 2, 3, 3, 4])
        els = []
        for pos in range(n):
            if rng.random() < 0.4:
                els.append(lit(rng.choice(lits)))
            else:
                els.append(bind(pos, rng.choice(types), rng.choice(ops)))
        if all(e['k'] == 'lit' for e in els):
            continue
        key = json.dumps(els)
        if key not in [json.dumps(p['els']) for p in pool]:
            pool.append({'els': els, 'trail': rng.random() < 0.4})
    pats += pool[:60]
    return pats


def render_text(tp):
    parts = []
    for p in tp['parts']:
        if p['k'] == 'lit':
            parts.append('a')
        elif p['k'] == 'empty':
            parts.append('')
        else:
            parts.append('<%s%s%s>' % (p['n'], p['op'], p['t']))
    s = ('/' if tp['lead'] else '') + '/'.join(parts) + ('/' if tp['trail'] else '')
    return s


def leg_text(run, quick):
    from clastic import Route
    from clastic.route import InvalidPattern
    T = spec('Pattern_Text.tla')
    text = open(cfgpath('Pattern_text.cfg')).read()
    if quick:
        cfg = cfgpath('Pattern_text.cfg')
        e = tlc.run_tlc(T, cfg, workers=1)
        emits = tlc.pick(e.emits, 6000, run.seed)
        # the shortest texts ('', '/', 'a', '//', ...) are always included
        short = dict((render_text(r_['tp']), r_) for r_ in e.emits if len(render_text(r_['tp'])) <= 2)
        emits = emits + [short[k_] for k_ in sorted(short)]
    else:
        e = tlc.run_tlc(T, cfgpath('Pattern_text.cfg'), workers=1)
        emits = e.emits
    run.add_tlc('Pattern_Text emission (textual patterns, <= 2 parts)', e)
    n = 0
    for rec in emits:
        tp = rec['tp']
        s = render_text(tp)          # (may be the empty string: a pattern without a leading slash like any other)
        # a rendering artefact: an "empty" last part followed by the trail slash is "//" as intended;
        # an "empty" FIRST part after the leading slash is "//" as well
        try:
            Route(s, lambda: None)
            outcome = 'ok'
        except InvalidPattern:
            outcome = 'InvalidPattern'
        except Exception as ex:  # noqa
            outcome = 'other:' + type(ex).__name__
        n += 1
        run.evaluations += 1
        exp = 'ok' if rec['valid'] else 'InvalidPattern'
        if not rec['valid']:
            run.nontrivial.add('text:' + s)
        if outcome != exp:
            why = 'valid-pattern-rejected' if rec['valid'] else 'invalid-pattern-accepted'
            run.violation('%s:%s' % (why, outcome), 'Route(%r): expected %s, got %s' % (s, exp, outcome),
                          {'leg': 'L2', 'kind': 'text', 'pattern': s, 'tp': tp, 'expected': exp, 'observed': outcome})
        else:
            run.traces += 1
    run.notes['text_patterns_checked'] = n


def leg_dispatch(run):
    """"the handler receives Python str conversions of those segments": what an endpoint receives when the request goes through
    the Application equals what the bound route's match_path assigns (which the strings leg has TLC judge), also for
    segments with non-ASCII letters, blanks and percent signs - the WSGI server hands PATH_INFO over latin-1 decoded."""
    import common
    common.fresh_repo_import()
    from clastic import Application, Response
    from werkzeug.test import create_environ, run_wsgi_app
    got = {}
    pats = ['/a/<x>', '/a/<x>/<y?>', '/r/<r*>', '/r2/<r+>/end', '/n/<n:int>/<s>', u'/caf\xe9/<x>', '/b/<x>/', '/bb/<r+>/']

    def ep(x=None, y=None, r=None, n=None, s=None):
        got['kw'] = dict((k, v) for k, v in (('x', x), ('y', y), ('r', r), ('n', n), ('s', s)) if v is not None)
        return Response('ok')
    app = Application([(p_, ep) for p_ in pats])
    segs = [u'zo\xe9', u'\u65e5\u672c', u'a b', u'50%', u'%41', u'\xfc\xdf', 'plain', u'\u2603snow']
    paths = []
    for a_ in segs:
        paths += [u'/a/' + a_, u'/a/' + a_ + u'/' + segs[(segs.index(a_) + 1) % len(segs)], u'/r/' + a_ + u'/x/' + a_,
                  u'/r2/' + a_ + u'/end', u'/n/7/' + a_, u'/caf\xe9/' + a_]
    # '.' and '..' are plain str segments of the mini-language, also in front of a trailing slash
    paths += ['/b/./', '/b/../', '/bb/./x/', '/bb/x/../', '/a/.', '/a/..', '/r/./..']
    for path in paths:
        env = create_environ('/')
        env['PATH_INFO'] = path.encode('utf8').decode('latin1')
        got.clear()
        run.evaluations += 1
        try:
            it, status, headers = run_wsgi_app(app, env)
            b''.join(it)
        except Exception as ex:  # noqa
            run.violation('dispatch-raised:%s' % type(ex).__name__, 'request %r raised %r' % (path, ex), {'leg': 'L2', 'kind': 'dispatch', 'path': path})
            continue
        expected = None
        for br in app.routes:
            m = br.match_path(path)
            if m is not None:
                expected = dict((k, v) for k, v in m.items() if v is not None)
                break
        observed = got.get('kw') if status.startswith('200') else None
        if observed != expected:
            run.violation('handler-receives-other-values', 'request %r: the endpoint received %r, match_path assigns %r'
                          % (path, observed, expected), {'leg': 'L2', 'kind': 'dispatch', 'path': path})
        else:
            run.traces += 1
            run.nontrivial.add('dispatch:' + path)


def classify_reject(rec, k, pats):
    o = rec['obs'][k - 1]
    pat = pats[o['p'] - 1]
    path = ''.join(rec['path'])
    multi = any(e['k'] == 'bind' and e['op'] in ('*', '+') for e in pat['els'])
    names = [b['n'] for b in o['b']]
    if any(n.startswith('RAISED:') for n in names):
        return 'match-path-raised:' + [n for n in names if n.startswith('RAISED:')][0][7:]
    if multi and o['m'] != 'strict' and '//' in path:
        if o['ok'] and any(v == ['s'] for b in o['b'] for v in b['vals']):
            return 'multi-binding-repeated-slash:empty-entry'
        if not o['ok']:
            return 'multi-binding-repeated-slash:typed-no-match'
    if o['ok']:
        return 'unexpected-match-or-wrong-values:%s' % o['m']
    return 'missing-match:%s' % o['m']


def leg_strings(run, quick):
    pats = catalogue(run.seed)
    d = os.path.join(common.WORK, 'c05-%d' % os.getpid())
    shutil.rmtree(d, ignore_errors=True)
    os.makedirs(d)
    pats_file = os.path.join(d, 'pats.json')
    with open(pats_file, 'w') as f:
        json.dump(pats, f)
    maxlen = 5 if quick else 6
    jobs = []
    nsh = 16
    subset = sorted(random.Random(run.seed).sample(range(1, len(pats) + 1), 24))
    for k in range(nsh):
        job = {'pats': pats, 'paths_spec': {'kind': 'all', 'maxlen': maxlen if quick else 7}, 'out': os.path.join(d, 'sh%02d.ndjson' % k),
               'shard': k, 'nshards': nsh}
        if not quick:
            job['pat_subset'] = subset
            job['subset_from_len'] = 6
        jf = os.path.join(d, 'job%02d.json' % k)
        with open(jf, 'w') as f:
            json.dump(job, f)
        jobs.append((jf, job['out']))
    # plus seeded long random paths in one extra shard
    rng = random.Random(run.seed + 99)
    sig = ['/', '/', 'a', '5', '.', '-', '+', ' ', 'e', u'é']
    longs = ['/' + ''.join(rng.choice(sig) for _ in range(rng.randint(6, 40))) for _ in range(300 if quick else 5000)]
    job = {'pats': pats, 'paths_spec': {'kind': 'list', 'paths': longs}, 'out': os.path.join(d, 'sh-long.ndjson'),
           'shard': 0, 'nshards': 1}
    jf = os.path.join(d, 'job-long.json')
    with open(jf, 'w') as f:
        json.dump(job, f)
    jobs.append((jf, job['out']))

    def one(j):
        env = dict(os.environ, PYTHONWARNINGS='ignore', PYTHONDONTWRITEBYTECODE='1')
        p = subprocess.run([sys.executable, os.path.join(HERE, 'c05_worker.py'), j[0]], stdout=subprocess.PIPE,
                           stderr=subprocess.STDOUT, env=env, timeout=3400)
        if p.returncode != 0:
            raise tlc.MachineryError('c05 worker failed: ' + p.stdout.decode('utf8', 'replace')[-2000:])
        r = tlc.run_tlc(spec('Pattern_Trace.tla'), cfgpath('Pattern_Trace.cfg'), workers=1,
                        env={'TRACE_FILE': j[1], 'PATS_FILE': pats_file}, timeout=3400, xmx='3g',
                        tag='c05-' + os.path.basename(j[1]))
        return j, r
    total_paths = 0
    total_obs = 0
    rejects = []
    with ThreadPoolExecutor(max_workers=16) as ex:
        results = list(ex.map(one, jobs))
    for (jf, outf), r in results:
        run.states += r.distinct or r.generated
        run.transitions += r.generated
        acc = set(t[0] for t in tlc.tagged(r, 'ACCEPT'))
        rej = {}
        for t in tlc.tagged(r, 'REJECT'):
            rej.setdefault(t[0], []).append((t[1], t[2]))
        with open(outf) as f:
            for line in f:
                rec = json.loads(line)
                total_paths += 1
                total_obs += len(rec['obs'])
                if rec['tid'] in acc:
                    run.traces += 1
                    if len(run.samples) < 3 and len(rec['path']) >= 4:
                        run.sample({'path': ''.join(rec['path']), 'n_obs': len(rec['obs']), 'first_obs': rec['obs'][:2],
                                    'pattern_of_first': pats[rec['obs'][0]['p'] - 1]})
                elif rec['tid'] in rej:
                    for kk in rej[rec['tid']]:
                        rejects.append((rec, kk))
                else:
                    raise tlc.MachineryError('path record %r neither accepted nor rejected by TLC' % rec['tid'])
    run.tlc_runs.append({'run': 'Pattern_Trace (record validation, %d shards)' % len(jobs), 'paths': total_paths,
                         'observations': total_obs,
                         'generated': sum(r.generated for _j, r in results),
                         'wall_s': round(max(r.wall for _j, r in results), 2)})
    run.evaluations += total_obs
    run.notes['strings'] = {'alphabet': ''.join(['/', 'a', '5', '.', '-', '+', ' ', 'e', u'é']), 'max_len': maxlen if quick else 7,
                            'paths': total_paths, 'observations': total_obs, 'patterns': len(pats), 'modes': 3,
                            'rejected_paths': len(rejects)}
    run.nontrivial.update('path:%d' % i for i in range(min(total_paths, 10 ** 7)))
    for rec, (k, nbad) in rejects:
        sig_ = classify_reject(rec, k, pats)
        o = rec['obs'][k - 1]
        pat = pats[o['p'] - 1]
        from c05_worker import render
        run.violation(sig_, 'pattern %r mode %s path %r: observed %r is not allowed by the specification (%d bad observation(s) on this path)'
                      % (render(pat), o['m'], ''.join(rec['path']), o, nbad),
                      {'leg': 'L3', 'kind': 'match', 'pattern': pat, 'pattern_text': render(pat), 'mode': o['m'],
                       'path': ''.join(rec['path']), 'observed': o})
    shutil.rmtree(d, ignore_errors=True)


def check(run):
    quick = run.tier == 'quick'
    run.rule = ('every string over the 9-character alphabet up to the length bound x catalogue patterns x 3 slash modes, each '
                'observation judged by TLC; distinct = distinct path; non-trivial: every path (each is matched against ~100 '
                'patterns; the count is the number of distinct paths, not of observations)')
    run.assumptions = ['Python int()/float() of a segment is the trusted conversion table',
                       'segments containing spaces that are numeric without them are gray (either outcome)',
                       'literal segments with regex metacharacters, trailing newline and non-ASCII digits are outside the alphabet']
    r = tlc.run_tlc(spec('Pattern_MC.tla'), cfgpath('Pattern_quick.cfg' if quick else 'Pattern_thorough.cfg'), timeout=3400)
    run.add_tlc('Pattern_MC (stepwise matcher vs Can/Assign; mode algebra)', r)
    run.exhaustive = r.complete
    if r.violated:
        run.tlc_violation('Pattern_MC', r)
    leg_text(run, quick)
    leg_dispatch(run)
    leg_strings(run, quick)


def replay(run, path):
    with open(path) as f:
        rp = json.load(f)
    c = rp['case']
    if c.get('kind') == 'dispatch':
        print('re-run `bin/check C05 quick` (dispatch leg), path %r' % c['path'])
        return 1
    if c.get('kind') == 'text':
        from clastic import Route
        try:
            Route(c['pattern'], lambda: None)
            out = 'ok'
        except Exception as e:  # noqa
            out = type(e).__name__
        print(c['pattern'], '->', out, 'expected', c['expected'])
        return 0 if out == c['expected'] else 1
    from clastic import Application, Route
    br = Route(c['pattern_text'], lambda: None).bind(Application([], slash_mode=c['mode']))
    print(c['pattern_text'], c['mode'], repr(c['path']), '->', br.match_path(c['path']))
    print('recorded observation was', c['observed'])
    return 1
