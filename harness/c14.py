# -*- coding: utf-8 -*-
"""C14 - Static serving never leaves its roots and serves files faithfully.

L1  TLC on Static.tla: NeverServerError, Confinement, EscapeRefused, Completeness, FaultsAreSoft,
    Conditional over every request path (raw segments incl. "", ".", "..", "..."), IMS kind and
    single (call, errno) fault.
L2  every behaviour TLC enumerates (request, IMS kind, fault plan, expected outcome) is replayed
    against two overlapping real StaticApplications over a materialised tree (3 search directories,
    nested directories, text / binary / empty / extension-less files, secrets beside and above the
    roots); faults are injected by shimming clastic.static.isfile, open, os.path.getmtime/getsize
    and the file object's read at the modelled call; status, exact bytes, Content-Length,
    Last-Modified and Content-Type are compared.
"""
import errno as _errno
import json
import os
import shutil

import common
import tlc
from common import spec, cfgpath

CONTENT = {1: b'alpha text file\n' * 20, 2: b'nested b.txt\n',
           # text in several scripts, UTF-8 encoded: still text (the type of an extension-less file is guessed from its bytes)
           3: (u'text without extension \u2014 \u043a\u0438\u0440\u0438\u043b\u043b\u0438\u0446\u0430 \u65e5\u672c\u8a9e \u20ac caf\xe9 ' * 40).encode('utf8'),
           4: bytes(range(256)) * 8, 5: b'', 6: b'SHADOWED a.txt of aroot2\n', 7: b'only in aroot2\n',
           8: b'a.txt of the second application\n', 9: b'third, second application only\n'}
TREE = {'zroot1': {'a.txt': 1, 'd/b.txt': 2, 'noext': 3, 'd/bin': 4, 'empty': 5},
        'aroot2': {'a.txt': 6, 'only2': 7},
        'root3': {'a.txt': 8, 'third': 9}}
CTYPE = {1: 'text/plain', 2: 'text/plain', 3: 'text/plain', 4: 'application/octet-stream', 5: 'text/plain',
         6: 'text/plain', 7: 'text/plain', 8: 'text/plain', 9: 'text/plain'}
SECRET = b'TOP-SECRET-MARKER-7f3a'
ERRNO = {'ENOENT': _errno.ENOENT, 'EACCES': _errno.EACCES, 'EIO': _errno.EIO, 'EISDIR': _errno.EISDIR}


def materialise():
    base = os.path.join(common.WORK, 'c14-%d' % os.getpid())
    shutil.rmtree(base, ignore_errors=True)
    for root, files in TREE.items():
        for rel, cid in files.items():
            p = os.path.join(base, 'tree', root, rel)
            os.makedirs(os.path.dirname(p), exist_ok=True)
            with open(p, 'wb') as f:
                f.write(CONTENT[cid])
    # one file carries a modification time in the FUTURE (unpacked archive, skewed clock): it is served and revalidated
    # like any other
    import time as _t
    fut = _t.time() + 2 * 86400
    os.utime(os.path.join(base, 'tree', 'zroot1', 'd', 'b.txt'), (fut, fut))
    for rel in ('tree/secret.txt', 'secret.txt', 'tree/zroot1/../beside.txt'):
        with open(os.path.join(base, rel), 'wb') as f:
            f.write(SECRET)
    return base


class Faulty(object):
    """shims for one request"""
    def __init__(self, fault, target):
        self.fault = fault
        self.target = os.path.normpath(target) if target else None
        self.isfile_calls = 0
        self.opened = False
        self.ims_mtime_pending = False
        self.mtime_calls = 0
        self.armed = True     # faults hit only while the endpoint runs (before the response is returned)

    def err(self):
        e = ERRNO[self.fault['kind']]
        return OSError(e, os.strerror(e))

    def hit(self, path):
        return self.target is not None and os.path.normpath(path) == self.target


class ReadFaultFile(object):
    def __init__(self, f, fy):
        self._f, self._fy = f, fy

    def read(self, *a):
        if self._fy is not None and self._fy.armed:
            fy, self._fy = self._fy, None
            raise fy.err()
        return self._f.read(*a)

    def __getattr__(self, n):
        return getattr(self._f, n)

    def __iter__(self):
        return iter(self._f)


def run_request(app, base, segs, ims_kind, fault, last_modified):
    import clastic.static as st
    from werkzeug.test import create_environ, run_wsgi_app
    env = create_environ('/')
    env['PATH_INFO'] = '/s/' + '/'.join(segs)
    if ims_kind == 'old':
        env['HTTP_IF_MODIFIED_SINCE'] = 'Mon, 01 Jan 1990 00:00:00 GMT'
    elif ims_kind == 'fresh':
        env['HTTP_IF_MODIFIED_SINCE'] = last_modified or 'Fri, 01 Jan 2100 00:00:00 GMT'
    call = fault['call']
    target = None
    if call != '-':
        rel = os.path.normpath('/'.join(segs)) if segs else '.'
        target = os.path.join(base, 'tree', 'zroot1', rel)
    fy = Faulty(fault, target)
    real_isfile, real_getmtime, real_getsize = st.isfile, os.path.getmtime, os.path.getsize
    has_ims = ims_kind != 'none'

    def isfile(p):
        if fy.hit(p):
            fy.isfile_calls += 1
            if call == 'isfile1' and fy.isfile_calls == 1:
                return False
            if call == 'isfile2' and fy.isfile_calls == 2:
                return False
        return real_isfile(p)

    def getmtime(p):
        if fy.hit(p):
            fy.mtime_calls += 1
            if call == 'imsMtime' and has_ims and not fy.opened and fy.mtime_calls == 1:
                raise fy.err()
            if call == 'mtime' and fy.opened:
                raise fy.err()
        return real_getmtime(p)

    def getsize(p):
        if fy.hit(p) and call == 'size':
            raise fy.err()
        return real_getsize(p)

    def open_(p, *a, **kw):
        if fy.hit(p):
            if call == 'open':
                raise fy.err()
            fy.opened = True
            f = open(p, *a, **kw)
            if call == 'peek':
                return ReadFaultFile(f, fy)
            return f
        return open(p, *a, **kw)
    st.isfile = isfile
    st.open = open_
    os.path.getmtime = getmtime
    os.path.getsize = getsize
    try:
        try:
            seen = {}

            def start_response(status, headers, exc_info=None):
                seen['status'], seen['headers'] = status, headers
                return lambda data: None
            app_iter = app(env, start_response)
            fy.armed = False
            body = b''.join(app_iter)
            if hasattr(app_iter, 'close'):
                app_iter.close()
            status, headers = seen['status'], seen['headers']
        except Exception as e:  # noqa
            return {'status': -1, 'escaped': type(e).__name__, 'body': b'', 'headers': {}}
    finally:
        st.isfile = real_isfile
        os.path.getmtime = real_getmtime
        os.path.getsize = real_getsize
        try:
            del st.open
        except AttributeError:
            pass
    return {'status': int(status.split()[0]), 'body': body, 'headers': dict(headers)}


def judge(rec, obs):
    out = rec['out']
    if obs['status'] == -1:
        return 'exception-escaped:' + obs['escaped']
    if SECRET in obs['body']:
        return 'secret-disclosed'
    if obs['status'] != out['status']:
        f = rec['req']['fault']
        tag = 'fault-%s' % f['call'] if f['call'] != '-' else ('escaping-path' if rec['escapes'] else 'plain')
        return 'status:%s->%s:%s' % (out['status'], obs['status'], tag)
    if out['status'] == 200:
        if obs['body'] != CONTENT[out['c']]:
            return 'wrong-bytes-served'
        h = obs['headers']
        if h.get('Content-Length') != str(len(CONTENT[out['c']])):
            return 'content-length-wrong'
        if not h.get('Last-Modified'):
            return 'last-modified-missing'
        if (h.get('Content-Type') or '').split(';')[0] != CTYPE[out['c']]:
            return 'content-type-unexpected'
    if out['status'] == 304 and obs['body']:
        return 'body-on-304'
    return None


def check(run):
    quick = run.tier == 'quick'
    S = spec('Static.tla')
    run.rule = ('behaviours = (raw segment sequence over 13 symbols incl. "", ".", "..", "...", IMS kind, single (call, errno) '
                'fault) enumerated by TLC; non-trivial = the path resolves to a regular file, or escapes, or carries a fault')
    run.assumptions = ['symlinks are not modelled', 'faults while the body is being streamed (after the response started) are '
                       'outside the property', 'a file whose first path component begins with ".." is refused by design']
    r = tlc.run_tlc(S, cfgpath('Static_quick.cfg' if quick else 'Static_thorough.cfg'), timeout=3000)
    run.add_tlc('Static exhaustive', r)
    run.exhaustive = r.complete
    if r.violated:
        run.tlc_violation('Static', r)
    e = tlc.run_tlc(S, cfgpath('Static_emit.cfg' if quick else 'Static_emit3.cfg'), workers=1, timeout=3000)
    run.add_tlc('Static emission (every behaviour)', e)
    recs = e.emits if quick else tlc.pick(e.emits, 150000, run.seed)
    from clastic import Application
    from clastic.static import StaticApplication
    base = materialise()
    try:
        t = os.path.join(base, 'tree')
        # (an upload route restricted to POST covers the same URL space in front of the static applications: a GET skips it)
        from clastic import POST, Response
        app = Application([POST('/s/<path*>', lambda path: Response('uploaded')),
                           ('/s', StaticApplication([os.path.join(t, 'zroot1'), os.path.join(t, 'aroot2')])),
                           ('/s', StaticApplication([os.path.join(t, 'root3')]))])
        lm_cache = {}
        for n, rec in enumerate(recs):
            req = rec['req']
            segs = req['segs']
            lm = None
            if req['ims'] == 'fresh':
                key = '/'.join(segs)
                if key not in lm_cache:
                    o = run_request(app, base, segs, 'none', {'call': '-', 'kind': '-'}, None)
                    lm_cache[key] = o['headers'].get('Last-Modified')
                lm = lm_cache[key]
            obs = run_request(app, base, segs, req['ims'], req['fault'], lm)
            run.evaluations += 1
            sig = judge(rec, obs)
            if rec['out']['status'] != 404 or rec['escapes'] or req['fault']['call'] != '-':
                run.nontrivial.add(json.dumps(req, sort_keys=True))
            if sig:
                run.violation(sig, 'request /s/%s ims=%s fault=%r: spec %r, observed status %s (%d bytes)'
                              % ('/'.join(segs), req['ims'], req['fault'], rec['out'], obs['status'], len(obs['body'])),
                              {'leg': 'L2', 'rec': rec, 'observed': {'status': obs['status'], 'headers': obs['headers'],
                                                                       'body_len': len(obs['body'])}})
            else:
                run.traces += 1
            if n in (5, 500):
                run.sample({'req': req, 'expected': rec['out'], 'observed_status': obs['status']})
    finally:
        shutil.rmtree(base, ignore_errors=True)


def replay(run, path):
    with open(path) as f:
        rp = json.load(f)
    rec = rp['case']['rec']
    from clastic import Application
    from clastic.static import StaticApplication
    base = materialise()
    try:
        t = os.path.join(base, 'tree')
        # (an upload route restricted to POST covers the same URL space in front of the static applications: a GET skips it)
        from clastic import POST, Response
        app = Application([POST('/s/<path*>', lambda path: Response('uploaded')),
                           ('/s', StaticApplication([os.path.join(t, 'zroot1'), os.path.join(t, 'aroot2')])),
                           ('/s', StaticApplication([os.path.join(t, 'root3')]))])
        req = rec['req']
        lm = None
        if req['ims'] == 'fresh':
            lm = run_request(app, base, req['segs'], 'none', {'call': '-', 'kind': '-'}, None)['headers'].get('Last-Modified')
        obs = run_request(app, base, req['segs'], req['ims'], req['fault'], lm)
        sig = judge(rec, obs)
        print('expected', rec['out'], 'observed', obs['status'], '->', sig or 'conforms')
        return 1 if sig else 0
    finally:
        shutil.rmtree(base, ignore_errors=True)
