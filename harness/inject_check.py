# -*- coding: utf-8 -*-
"""Shared driver for C01 / C02 / C04 (Inject.tla)."""
import json
import os
import subprocess
import sys
from concurrent.futures import ThreadPoolExecutor

import common
import tlc
from common import spec, cfgpath

HERE = os.path.dirname(os.path.abspath(__file__))


def replay_records(run, recs, opts, hashseeds, seed, label):
    """shard recs over worker processes (one PYTHONHASHSEED each); returns list of results"""
    if not recs:
        return []
    d = os.path.join(common.WORK, 'inject-%s-%d' % (label, os.getpid()))
    os.makedirs(d, exist_ok=True)
    nshards = 16
    jobs = []
    for k in range(nshards):
        part = recs[k::nshards]
        if not part:
            continue
        hs = hashseeds[k % len(hashseeds)]
        fin = os.path.join(d, 'in%02d.json' % k)
        fout = os.path.join(d, 'out%02d.json' % k)
        with open(fin, 'w') as f:
            json.dump({'recs': part, 'seed': seed * 1000 + k, 'opts': opts}, f)
        jobs.append((k, hs, fin, fout, part))

    def one(job):
        k, hs, fin, fout, part = job
        env = dict(os.environ, PYTHONHASHSEED=str(hs), PYTHONWARNINGS='ignore', PYTHONDONTWRITEBYTECODE='1')
        p = subprocess.run([sys.executable, os.path.join(HERE, 'inject_worker.py'), fin, fout],
                           stdout=subprocess.PIPE, stderr=subprocess.STDOUT, env=env, timeout=3000)
        if p.returncode != 0 or not os.path.exists(fout):
            raise tlc.MachineryError('inject worker failed: %s' % p.stdout.decode('utf8', 'replace')[-2000:])
        with open(fout) as f:
            return json.load(f), part, hs
    out = []
    with ThreadPoolExecutor(max_workers=16) as ex:
        for res, part, hs in ex.map(one, jobs):
            for r in res:
                r['rec'] = part[r['i']]
                r['hashseed'] = hs
                out.append(r)
    import shutil
    shutil.rmtree(d, ignore_errors=True)
    return out


def nontrivial_key(rec):
    return json.dumps([rec['n'], rec['nApp'], rec['P'], rec['V'], rec['bare'], rec['url'], rec['res'], rec['rres'],
                       rec['hasRender'], rec['bad']], sort_keys=True)


def absorb(run, results, nontrivial):
    """fold worker results into the run; returns carrier/kind coverage counters"""
    cov = {}
    for r in results:
        if 'harness_error' in r:
            raise tlc.MachineryError('inject worker harness error:\n' + r['harness_error'])
        run.evaluations += 1
        rec = r['rec']
        if nontrivial(rec):
            run.nontrivial.add(nontrivial_key(rec))
        info = r['info']
        for c in info.get('carriers', []):
            cov['carrier:' + c] = cov.get('carrier:' + c, 0) + 1
        cov['kinds:' + info['kinds']] = cov.get('kinds:' + info['kinds'], 0) + 1
        cov['outcome:' + info['outcome']] = cov.get('outcome:' + info['outcome'], 0) + 1
        if not r['viol']:
            run.traces += 1
        for sig, what, detail in r['viol']:
            detail['leg'] = 'L2'
            run.violation(sig, what, detail)
    return cov


def run_l1(run, cfgs, sims):
    M = spec('Inject.tla')
    for name, cfg in cfgs:
        r = tlc.run_tlc(M, cfgpath(cfg), timeout=3400)
        run.add_tlc(name, r)
        if r.violated:
            run.tlc_violation(name, r)
        elif r.complete:
            run.exhaustive = True
    for name, cfg, num, depth in sims:
        r = tlc.run_tlc(M, cfgpath(cfg), simulate=num, depth=depth, seed=run.seed + 21, timeout=3400)
        run.add_tlc(name, r)
        if r.violated:
            run.tlc_violation(name, r)


def emit(run, name, cfg, num, depth, want, seed_off=0, bfs=False):
    M = spec('Inject.tla')
    if bfs:
        r = tlc.run_tlc(M, cfgpath(cfg), workers=1, timeout=3400)
    else:
        r = tlc.run_tlc(M, cfgpath(cfg), workers=1, simulate=num, depth=depth, seed=run.seed + 31 + seed_off,
                        timeout=3400)
    run.add_tlc(name, r)
    # de-duplicate configurations (random walks revisit prefixes)
    seen = set()
    out = []
    for rec in r.emits:
        k = nontrivial_key(rec)
        if k in seen:
            continue
        seen.add(k)
        out.append(rec)
    return tlc.pick(out, want, run.seed + seed_off)
