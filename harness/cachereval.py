# -*- coding: utf-8 -*-
"""Beyond the listed properties: CacheReval.tla (HTTPCacheMiddleware: entity tags + conditional requests) bound to the code.

L1  TLC: NeverStale, NotModifiedSound, FullUnlessValidated, TagsFollowBodies over every history of 6 updates/fetches.
L2  TLC emits histories (update the resource / fetch with or without the validator the client holds); the harness replays
    them against ONE real application with HTTPCacheMiddleware() installed, the harness playing the client (it sends the real
    ETag strings it received) and compares status, body and tag identity of every fetch with the emitted history.

Not gating (no listed property covers it): recorded under notes.beyond_property of the hosting check's evidence.
"""
import json

import tlc
from common import spec, cfgpath

TEXT = {'b1': b'first representation', 'b2': b'second representation, longer ' * 40, 'b3': b''}


def build(holder):
    from clastic import Application, Route, Response
    from clastic.errors import NotFound
    from clastic.middleware.client_cache import HTTPCacheMiddleware

    def ep():
        if holder['cur'] == 'gone':
            raise NotFound('resource is gone')
        return Response(TEXT[holder['cur']], mimetype='text/plain')
    return Application([Route('/res', ep, methods=['GET', 'POST'])], middlewares=[HTTPCacheMiddleware()])


def replay_history(rec):
    """returns None or a description of the first difference"""
    from werkzeug.test import Client
    from werkzeug.wrappers import BaseResponse
    holder = {'cur': None}
    app = build(holder)
    cl = Client(app, BaseResponse)
    real = {}          # body id -> real ETag header value
    for n, op in enumerate(rec['ops']):
        if op['op'] in ('init', 'update'):
            holder['cur'] = op['to']
            continue
        headers = {}
        if op['sent'] != ['none']:
            b = op['sent'][1]
            if b not in real:
                return 'step %d: the model sends a validator for %s the client never received' % (n, b)
            headers['If-None-Match'] = real[b]
        try:
            resp = cl.open('/res', method=op['m'], headers=headers)
        except Exception as e:  # noqa
            return 'step %d: request raised %r' % (n, e)
        if resp.status_code != op['status']:
            return 'step %d %s (If-None-Match %r): status %d, spec %d' % (n, op['m'], headers.get('If-None-Match'), resp.status_code, op['status'])
        body = resp.get_data()
        etag = resp.headers.get('ETag')
        if op['status'] == 404:
            if etag is not None:
                return 'step %d: error response carries an ETag' % n
            continue
        want_body = b'' if op['body'] == '' else TEXT[op['body']]
        if body != want_body:
            return 'step %d %s: body %r..., spec %r...' % (n, op['m'], body[:30], want_body[:30])
        b = op['tag'][1]
        if etag is None:
            return 'step %d: no ETag on a %d response' % (n, op['status'])
        if b in real and real[b] != etag:
            return 'step %d: representation %s got a second validator %r (first %r)' % (n, b, etag, real[b])
        for other, t in real.items():
            if other != b and t == etag:
                return 'step %d: representations %s and %s share the validator %r' % (n, b, other, etag)
        real[b] = etag
    return None


def leg(run, quick):
    out = {'spec': 'CacheReval.tla', 'gating': False}
    C = spec('CacheReval.tla')
    r = tlc.run_tlc(C, cfgpath('CacheReval_quick.cfg'), timeout=1200)
    run.add_tlc('CacheReval exhaustive (beyond the listed properties, not gating)', r)
    out['l1'] = {'distinct': r.distinct, 'complete': r.complete, 'violated': r.violated}
    e = tlc.run_tlc(C, cfgpath('CacheReval_emit.cfg'), workers=1, simulate=(150 if quick else 4000), depth=14, seed=run.seed + 161,
                    timeout=1200)
    run.add_tlc('CacheReval emission (simulate)', e)
    diffs = []
    n304 = 0
    for rec in e.emits:
        d = replay_history(rec)
        n304 += sum(1 for o in rec['ops'] if o['status'] == 304)
        if d:
            diffs.append({'ops': rec['ops'], 'difference': d})
    out['l2'] = {'histories': len(e.emits), 'conform': len(e.emits) - len(diffs), 'differ': len(diffs),
                 'not_modified_answers_exercised': n304, 'first_differences': diffs[:2]}
    if r.violated or diffs:
        print('BEYOND-PROPERTY: CacheReval.tla (HTTP cache middleware): %s' %
              ('TLC invariant %s violated' % r.violated if r.violated else '%d of %d replayed histories differ, e.g. %s'
               % (len(diffs), len(e.emits), diffs[0]['difference'][:300])))
    return out


if __name__ == '__main__':
    import common
    common.fresh_repo_import()

    class R(object):
        seed = 0
        notes = {}

        def add_tlc(self, *a):
            pass
    print(json.dumps(leg(R(), True), indent=1)[:3000])
