# -*- coding: utf-8 -*-
"""MANIFEST.setup_cmd: verify tooling, parse every spec module with SANY, create scratch dirs.
Reads files on disk only (no network)."""
import os
import shutil
import subprocess
import sys
from concurrent.futures import ThreadPoolExecutor

HERE = os.path.dirname(os.path.abspath(__file__))
sys.path.insert(0, HERE)
import tlc  # noqa

VERIF = os.path.dirname(HERE)


def main():
    for d in ('work', 'evidence', 'replays'):
        os.makedirs(os.path.join(VERIF, d), exist_ok=True)
    shutil.rmtree(os.path.join(VERIF, 'work', 'meta'), ignore_errors=True)
    p = subprocess.run(['java', '-version'], stdout=subprocess.PIPE, stderr=subprocess.STDOUT)
    if p.returncode != 0:
        print('java missing')
        return 2
    for f in (tlc.JAR, tlc.DEPS):
        if not os.path.exists(f):
            print('missing', f)
            return 2
    try:
        sys.path.insert(0, os.environ.get('VERIF_REPO', '/repo'))
        import clastic  # noqa
        import werkzeug  # noqa
    except Exception as e:  # noqa
        print('cannot import clastic from /repo with this interpreter: %r' % e)
        return 2
    mods = sorted(f for f in os.listdir(tlc.SPEC) if f.endswith('.tla'))
    bad = []

    def one(m):
        ok, text = tlc.sany(os.path.join(tlc.SPEC, m))
        return m, ok, text
    with ThreadPoolExecutor(max_workers=8) as ex:
        for m, ok, text in ex.map(one, mods):
            print('SANY %-28s %s' % (m, 'ok' if ok else 'FAILED'))
            if not ok:
                bad.append(m)
                print(text[-1500:])
    if bad:
        return 2
    print('setup ok: %d spec modules parsed' % len(mods))
    return 0


if __name__ == '__main__':
    sys.exit(main())
