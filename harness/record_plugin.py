# -*- coding: utf-8 -*-
"""pytest plugin (lives in /verif, loaded with `-p record_plugin`): records the WSGI interaction of EVERY
request that any test of the repository's own suite sends through an Application, one trace per call, in
the event format of Wsgi_Trace.tla.  Output: ndjson file named by $VERIF_RECORD_OUT."""
import json
import os
import re

_OUT = os.environ.get('VERIF_RECORD_OUT')
_STATUS_RE = re.compile(r'^[1-5][0-9][0-9] \S.*$')
_BAD = re.compile(r'[\x00-\x1f\x7f]')
_traces = []


def _wrap():
    from clastic.application import Application
    orig = Application.__call__
    if getattr(orig, '_verif_wrapped', False):
        return

    def recording_call(self, environ, start_response):
        ev = [{'a': 'call', 'm': environ.get('REQUEST_METHOD', 'GET')}]
        reraise = bool(getattr(getattr(self, 'error_handler', None), 'reraise_uncaught', False)) or \
            type(getattr(self, 'error_handler', None)).__name__ == 'REPLErrorHandler'
        rec = {'ev': ev, 'reraise': reraise, 'test': os.environ.get('PYTEST_CURRENT_TEST', '?'),
               'path': environ.get('PATH_INFO')}
        _traces.append(rec)

        def sr(status, headers, exc_info=None):
            ok_s = isinstance(status, str) and bool(_STATUS_RE.match(status))
            ok_h = isinstance(headers, list) and all(
                isinstance(h, tuple) and len(h) == 2 and isinstance(h[0], str) and isinstance(h[1], str)
                and not _BAD.search(h[0]) and not _BAD.search(h[1]) for h in headers)
            ev.append({'a': 'start', 'statusOK': ok_s, 'headersOK': ok_h, 'excInfo': exc_info is not None})
            return start_response(status, headers, exc_info) if exc_info is not None else start_response(status, headers)
        try:
            it = orig(self, environ, sr)
        except BaseException as e:  # noqa
            ev.append({'a': 'escaped', 'cls': type(e).__name__})
            raise

        class It(object):
            def __init__(self):
                self._it = iter(it)

            def __iter__(self):
                return self

            def __next__(self):
                try:
                    chunk = next(self._it)
                except StopIteration:
                    raise
                except BaseException as e:  # noqa
                    ev.append({'a': 'escaped', 'cls': type(e).__name__})
                    raise
                ev.append({'a': 'yield', 'n': len(chunk) if isinstance(chunk, (bytes, str)) else 0,
                           'bytesOK': isinstance(chunk, bytes)})
                return chunk

            def close(self):
                if hasattr(it, 'close'):
                    it.close()
                ev.append({'a': 'close'})
        return It()
    recording_call._verif_wrapped = True
    Application.__call__ = recording_call


def pytest_configure(config):
    if _OUT:
        _wrap()


def pytest_unconfigure(config):
    if _OUT:
        with open(_OUT, 'w') as f:
            for t in _traces:
                f.write(json.dumps(t) + '\n')
