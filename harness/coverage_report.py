# -*- coding: utf-8 -*-
"""Vacuity audit (development tool): run every exhaustive *_quick.cfg / *_c04.cfg with `-coverage 1` and list the actions TLC
never took (an action never taken means the properties were never exercised on it).  Writes work/coverage_report.json."""
import glob
import json
import os
import re
import sys

sys.path.insert(0, os.path.dirname(os.path.abspath(__file__)))
import tlc  # noqa
from common import spec, cfgpath, WORK  # noqa

PAIRS = [('Inject.tla', 'Inject_quick.cfg'), ('Inject.tla', 'Inject_c04.cfg'), ('Onion.tla', 'Onion_quick.cfg'),
         ('Pattern_MC.tla', 'Pattern_quick.cfg'), ('Dispatch.tla', 'Dispatch_quick.cfg'), ('Slash.tla', 'Slash_quick.cfg'),
         ('ErrPipe.tla', 'ErrPipe_quick.cfg'), ('ErrorFmt.tla', 'ErrorFmt_quick.cfg'), ('Embed.tla', 'Embed_quick.cfg'),
         ('AppHistory.tla', 'AppHistory_quick.cfg'), ('Threads.tla', 'Threads_none.cfg'), ('Wsgi.tla', 'Wsgi_quick.cfg'),
         ('WsgiWrap.tla', 'WsgiWrap_quick.cfg'), ('Static.tla', 'Static_quick.cfg'), ('BuiltinMw.tla', 'BuiltinMw_quick.cfg'),
         ('Cookie.tla', 'Cookie_quick_2.cfg'), ('Render.tla', 'Render_quick.cfg'), ('Meta.tla', 'Meta_quick.cfg'),
         ('Reservoir.tla', 'Reservoir_quick.cfg'), ('Counters.tla', 'Counters_quick.cfg'), ('Flaw.tla', 'Flaw_quick.cfg'),
         ('ParamMw.tla', 'ParamMw_quick.cfg'), ('CacheReval.tla', 'CacheReval_quick.cfg')]


def main():
    report = {}
    for mod, cfg in PAIRS:
        if not os.path.exists(cfgpath(cfg)) or not os.path.exists(spec(mod)):
            report['%s/%s' % (mod, cfg)] = 'missing'
            print(mod, cfg, 'MISSING')
            continue
        r = tlc.run_tlc(spec(mod), cfgpath(cfg), workers=8, coverage=True, timeout=3000)
        never = sorted(a for a, (d, t) in r.coverage.items() if t == 0)
        report['%s/%s' % (mod, cfg)] = {'distinct': r.distinct, 'complete': r.complete, 'actions': len(r.coverage), 'never_taken': never}
        print(mod, cfg, 'distinct=%s actions=%d never=%r' % (r.distinct, len(r.coverage), never), flush=True)
    with open(os.path.join(WORK, 'coverage_report.json'), 'w') as f:
        json.dump(report, f, indent=1)


if __name__ == '__main__':
    main()
