# -*- coding: utf-8 -*-
"""C10 - Embedding a sub-application is equivalent to declaring its routes flat.

L1  TLC on Embed.tla: algebraic facts of Flatten (NoLossNoDup, OrderKept, OuterHandles, OuterMwsFirst,
    UniqueOnce, ExplicitRenderWins, SlashIsOuterUnlessOptedOut), exhaustive on a reduced space,
    simulation on trees of depth 3.
L2  TLC emits application chains (depth <= 3) together with their flattening and the expected
    observation of two probes per flat route (canonical path, flipped trailing slash).  The harness
    builds the NESTED application from the tree and - from TLC's flat record, not from its own
    flattening - the FLAT application, sends the probes plus a failing request to both, and compares
    status / answering route / middleware trace / resources seen / renderer / error handler with the
    specification and with each other.
"""
import json
import re

import tlc
from common import spec, cfgpath

PAT_TEXT = {'x': '/x', 'yb': '/y/', 'v': '/<v>', 'vb': '/<v>/', 'xy': '/x/y', 'rootb': '/'}
PREFIX_TEXT = {'p': '/p', 'pq': '/p/q', 'root': '/', 'x': '/x'}
TAG = re.compile(r'\[\[(.*?)\]\]', re.S)


class ResObj(object):
    def __init__(self, name, lvl):
        self.name, self.lvl = name, lvl


MISSING = object()


class World(object):
    def __init__(self):
        self.trace = []


def mw_class(cache, t):
    from clastic.middleware import Middleware
    if t not in cache:
        # B derives from A: two DIFFERENT unique types (a derived middleware class is not "the same type" as its base)
        base = mw_class(cache, 'A') if t == 'B' else Middleware
        cache[t] = type('Mw' + t, (base,), {})
    return cache[t]


def make_mw(cache, W, t, label):
    cls = mw_class(cache, t)
    inst = cls()

    def request(self, next):
        W.trace.append(label)
        return next()
    inst.request = request.__get__(inst, cls)
    return inst


def make_endpoint(W, rid, rk):
    from clastic import Response

    def lvl_of(x):
        # MISSING: no source offered the name; None: the level-1 application registered the value None under it
        return 0 if x is MISSING else (1 if x is None else getattr(x, 'lvl', -1))

    def ep(request, ra=MISSING, rb=MISSING, v=None):
        if request.args.get('fail'):
            raise ValueError('endpoint %r failing on purpose' % (rid,))
        info = {'by': list(rid), 'ra': lvl_of(ra), 'rb': lvl_of(rb), 'v': v}
        if rk == 'none':
            return Response('[[' + json.dumps(dict(info, render='direct')) + ']]')
        return info
    ep.__name__ = 'ep_%d_%d' % tuple(rid)
    return ep


def make_render(tag):
    from clastic import Response

    def render(context):
        return Response('[[' + json.dumps(dict(context, render=tag)) + ']]')
    return render


def make_factory(lvl):
    def factory(arg):
        return make_render('fact@%d(%s)' % (lvl, arg))
    return factory


def make_handler(lvl, takes_ra=False):
    """error handler of level lvl; when that application defines resource `ra`, its render_error asks for it (the value
    it receives must be the SERVING application's)"""
    from clastic.errors import ErrorHandler

    if takes_ra:
        class H(ErrorHandler):
            def render_error(self, request, _error, ra):
                _error.adapt('text/plain')
                _error.data = ('[[' + json.dumps({'eh': lvl, 'code': _error.code, 'eh_ra': 1 if ra is None else getattr(ra, 'lvl', -1)}) + ']]').encode('utf8')
                return _error
    else:
        class H(ErrorHandler):
            def render_error(self, request, _error):
                _error.adapt('text/plain')
                _error.data = ('[[' + json.dumps({'eh': lvl, 'code': _error.code}) + ']]').encode('utf8')
                return _error
    return H()


def embed_elsewhere(app, W, cache):
    """the same application object is also mounted into an unrelated parent (every attribute that re-binding merges is
    set and different from anything in the chain); per the specification this has no effect on the chain"""
    from clastic import Application, SubApplication
    other = Application([SubApplication('/elsewhere', app, rebind_render=True, inherit_slashes=True)],
                        resources={'ra': ResObj('ra', 77), 'rb': ResObj('rb', 77)},
                        middlewares=[make_mw(cache, W, 'A', '77.0.1'), make_mw(cache, W, 'B', '77.0.2')],
                        render_factory=make_factory(77), error_handler=make_handler(77), slash_mode='rewrite')
    return other


def app_routes_of(entry):
    """the bound routes an entry contributes (a Route: one; a SubApplication: all routes of the embedded application)"""
    from clastic import SubApplication
    if isinstance(entry, SubApplication):
        return entry.app.routes
    return [entry]


def build_nested(rec, W):
    from clastic import Application, Route, SubApplication
    cache = {}
    depth = rec['depth']
    app = None
    reuse = rec.get('reuse') or ['none'] * depth
    keep = []
    for k in range(depth, 0, -1):
        a = rec['attrs'][k - 1]
        own = []
        for ri, d in enumerate(rec['routes'][k - 1], 1):
            rk = d['rk']
            render = None
            if rk == 'callable':
                render = make_render('callable@%d' % k)
            elif rk == 'arg':
                render = 'tmpl'
            mws = [make_mw(cache, W, t, '%d.%d.%d' % (k, ri, i)) for i, t in enumerate(d['mws'], 1)]
            own.append(Route(PAT_TEXT[d['pat']], make_endpoint(W, (k, ri), rk), render, middlewares=mws))
        entries = list(own)
        if app is not None:
            at = rec['subAt'][k - 1]
            ptxt = PREFIX_TEXT[a['prefix']]
            if a['prefix'] != 'root' and (k + len(own)) % 2 == 0:
                ptxt += '/'      # with and without trailing slash: SubApplication strips it
            if reuse[k] == 'before':        # reuse[k] (0-based) is the level k+1 application being embedded here
                keep.append(embed_elsewhere(app, W, cache))
            entries.insert(at, SubApplication(ptxt, app, rebind_render=a['rebind'], inherit_slashes=a['inherit']))
        app_mws = [make_mw(cache, W, t, '%d.0.%d' % (k, i)) for i, t in enumerate(a['mws'], 1)]
        # the outermost application may register the value None under a name: it still wins over inner levels' values
        none_outer = (k == 1 and (depth + len(rec['table'])) % 3 == 0)
        kw = dict(resources=dict((nm, None if none_outer else ResObj(nm, k)) for nm in a['res']), middlewares=app_mws,
                  render_factory=make_factory(k) if a['fact'] else None, error_handler=make_handler(k, 'ra' in a['res']),
                  slash_mode=a['slash'])
        if (k + len(entries) + depth) % 2 == 0:
            app = Application(entries, **kw)
        else:
            # the same table built by add() calls with explicit indices, in an order other than the final one
            app = Application([], **kw)
            order = list(range(len(entries)))
            order = order[1::2] + order[0::2]
            placed = []
            for j in order:
                idx = len([p_ for p_ in placed if p_ < j])
                # position in app.routes = number of ROUTES (not entries) already placed before it
                pos = sum(len(list(app_routes_of(entries[p_]))) for p_ in placed if p_ < j)
                app.add(entries[j], index=pos)
                placed.append(j)
        if k < depth and reuse[k] == 'after':
            keep.append(embed_elsewhere(inner_app, W, cache))
        inner_app = app
    W.keep = keep
    return app


def els_text(els, branch):
    parts = []
    for e in els:
        parts.append(e['v'] if e['k'] == 'lit' else '<%s>' % e['v'])
    s = '/' + '/'.join(parts)
    if branch and not s.endswith('/'):
        s += '/'
    return s


def build_flat(rec, W):
    """the flat application, built from TLC's flattened table"""
    from clastic import Application, Route
    cache = {}
    outer_has_ra = 'ra' in rec['attrs'][0]['res']
    app = Application([], error_handler=make_handler(1, outer_has_ra),
                      resources={'ra': ResObj('ra', 1)} if outer_has_ra else None)
    for r in rec['table']:
        rd = r['render']
        if r['rk'] == 'none':
            render = None
        elif rd['k'] == 'callable':
            render = make_render('callable@%d' % rd['lvl'])
        elif rd['k'] == 'fact':
            render = make_render('fact@%d(tmpl)' % rd['lvl'])
        else:
            render = None      # no renderer: a context is not a Response -> server error
        mws = [make_mw(cache, W, m['t'], '%d.%d.%d' % (m['lvl'], m['r'], m['i'])) for m in r['mws']]
        res = dict((nm, ResObj(nm, lvl)) for nm, lvl in r['res'].items() if lvl not in (0, 99))
        route = Route(els_text(r['els'], r['branch']), make_endpoint(W, tuple(r['id']), r['rk']), render,
                      middlewares=mws, resources=res, slash_mode=r['slash'])
        app.add(route, inherit_slashes=False)
    return app


def probe(app, W, segs, trail, fail=False):
    from werkzeug.test import Client
    from werkzeug.wrappers import BaseResponse
    W.trace = []
    path = '/' + '/'.join(segs) + ('/' if trail and segs else '')
    cl = Client(app, BaseResponse)
    try:
        resp = cl.get(path, query_string='fail=1' if fail else None)
    except Exception as e:  # noqa  (an exception escaping the application is an observation, not a harness failure)
        return {'status': -1, 'info': {'escaped': type(e).__name__}, 'trace': list(W.trace)}
    body = resp.get_data(as_text=True)
    m = TAG.search(body)
    info = json.loads(m.group(1)) if m else {}
    return {'status': resp.status_code, 'info': info, 'trace': list(W.trace)}


def expected_view(rec, r, which):
    o = r['obs'][which]
    out = {'k': o['k'], 'by': o['by']}
    if o['k'] == 'exec':
        ans = [x for x in rec['table'] if x['id'] == o['by']][0]
        out['trace'] = ['%d.%d.%d' % (m['lvl'], m['r'], m['i']) for m in ans['mws']]
        out['res'] = ans['res']
        if ans['rk'] == 'none':
            out['render'] = 'direct'
        elif ans['render']['k'] == 'callable':
            out['render'] = 'callable@%d' % ans['render']['lvl']
        elif ans['render']['k'] == 'fact':
            out['render'] = 'fact@%d(tmpl)' % ans['render']['lvl']
        else:
            out['render'] = 'noop-500'
    return out


def judge(exp, obs):
    st = obs['status']
    if exp['k'] == '404':
        return None if st == 404 else 'expected-404-got-%s' % st
    if exp['k'] == 'redirect':
        return None if st in (301, 302, 303, 307, 308) else 'expected-redirect-got-%s' % st
    if exp['render'] == 'noop-500':
        if st != 500:
            return 'expected-500-no-renderer-got-%s' % st
        if obs['info'].get('eh') != 1:
            return 'error-not-rendered-by-outer-handler'
        if obs['trace'] != exp['trace']:
            return 'middleware-trace-differs'
        return None
    if st != 200:
        return 'expected-200-got-%s' % st
    info = obs['info']
    if info.get('by') != exp['by']:
        return 'answering-route-differs'
    if obs['trace'] != exp['trace']:
        return 'middleware-trace-differs'
    for nm, lvl in exp['res'].items():
        if lvl == 99:
            continue
        if info.get(nm) != lvl:
            return 'resource-value-differs'
    if info.get('render') != exp['render']:
        return 'renderer-differs'
    return None


def check_tree(run, rec):
    W1, W2 = World(), World()
    try:
        nested = build_nested(rec, W1)
    except Exception as e:  # noqa
        run.violation('nested-construction-raised:%s' % type(e).__name__, 'building the nested application raised %r' % (e,),
                      {'leg': 'L2', 'rec': rec})
        return False
    try:
        flat = build_flat(rec, W2)
    except Exception as e:  # noqa
        run.violation('flat-construction-raised:%s' % type(e).__name__, 'building the flat application raised %r' % (e,),
                      {'leg': 'L2', 'rec': rec})
        return False
    ok = True
    # patterns of the nested application's routing table vs the flattened table
    pats = [r_.pattern for r_ in nested.routes]
    exp_pats = [els_text(r['els'], r['branch']) for r in rec['table']]
    if pats != exp_pats:
        ok = False
        run.violation('flattened-patterns-differ', 'nested app.routes patterns %r, spec %r' % (pats, exp_pats),
                      {'leg': 'L2', 'rec': rec, 'patterns': pats})
    for r in rec['table']:
        for which, trail in (('plain', r['branch']), ('flipped', not r['branch'])):
            if not r['probe'] and not trail:
                continue
            exp = expected_view(rec, r, which)
            for name, app, W in (('nested', nested, W1), ('flat', flat, W2)):
                obs = probe(app, W, r['probe'], trail)
                run.evaluations += 1
                sig = judge(exp, obs)
                if sig:
                    ok = False
                    run.violation('%s:%s' % (name, sig), '%s application, probe %r trail=%s: spec %r, observed %r'
                                  % (name, r['probe'], trail, exp, obs),
                                  {'leg': 'L2', 'rec': rec, 'route': r['id'], 'which': which, 'app': name, 'expected': exp,
                                   'observed': obs})
        # failing request on the canonical path: rendered by the OUTER application's handler
        if r['obs']['plain']['k'] == 'exec' and r['obs']['plain']['by'] == r['id']:
            for name, app, W in (('nested', nested, W1), ('flat', flat, W2)):
                obs = probe(app, W, r['probe'], r['branch'], fail=True)
                run.evaluations += 1
                want_ra = 1 if 'ra' in rec['attrs'][0]['res'] else None
                if obs['status'] != 500 or obs['info'].get('eh') != 1 or obs['info'].get('eh_ra') != want_ra:
                    ok = False
                    run.violation('%s:error-handling-not-outer' % name,
                                  '%s application: failing endpoint answered %r' % (name, obs),
                                  {'leg': 'L2', 'rec': rec, 'route': r['id'], 'app': name, 'observed': obs})
    # a request outside every prefix
    for name, app, W in (('nested', nested, W1), ('flat', flat, W2)):
        obs = probe(app, W, ['zz', 'zz', 'zz', 'zz', 'zz'], False)
        if obs['status'] != 404:
            ok = False
            run.violation('%s:outside-prefix-not-404' % name, 'unknown path answered %r' % (obs,), {'leg': 'L2', 'rec': rec})
    return ok


def check(run):
    quick = run.tier == 'quick'
    E = spec('Embed.tla')
    run.rule = ('application chains (depth <= 3, <= 2 own routes per level, attributes: resources, middlewares, slash mode, render '
                'factory, prefix, inherit_slashes, rebind_render, the same application object also mounted into an unrelated parent '
                'before/after; routes: pattern, render kind, route middlewares) generated by '
                'TLC with their flattening; non-trivial = depth >= 2 and at least one embedded route')
    run.assumptions = ['a resource name defined by two inner levels but not by the serving application is not compared',
                       'all middleware types are unique + reorderable (non-unique types are C03)']
    r = tlc.run_tlc(E, cfgpath('Embed_quick.cfg'), timeout=1500)
    run.add_tlc('Embed exhaustive (reduced attribute sets)', r)
    run.exhaustive = r.complete
    if r.violated:
        run.tlc_violation('Embed', r)
    r = tlc.run_tlc(E, cfgpath('Embed_sim.cfg'), simulate=(300 if quick else 20000), depth=20, seed=run.seed + 71, timeout=1500)
    run.add_tlc('Embed simulation (depth 3)', r)
    if r.violated:
        run.tlc_violation('Embed-sim', r)
    e = tlc.run_tlc(E, cfgpath('Embed_emit.cfg'), workers=1, simulate=(700 if quick else 12000), depth=20, seed=run.seed + 72)
    run.add_tlc('Embed emission (simulate)', e)
    seen = set()
    n = 0
    for rec in e.emits:
        key = json.dumps([rec['depth'], rec['attrs'][:rec['depth']], rec['routes'][:rec['depth']], rec['subAt'], rec.get('reuse')], sort_keys=True)
        if key in seen or not rec['table']:
            continue
        seen.add(key)
        ok = check_tree(run, rec)
        n += 1
        if rec['depth'] >= 2 and any(t['id'][0] >= 2 for t in rec['table']):
            run.nontrivial.add(key)
        if ok:
            run.traces += 1
        if n <= 2:
            run.sample({'depth': rec['depth'], 'attrs': rec['attrs'][:rec['depth']], 'routes': rec['routes'][:rec['depth']],
                        'subAt': rec['subAt'], 'flat_patterns': [els_text(t['els'], t['branch']) for t in rec['table']]})
    run.notes['trees_replayed'] = n


def replay(run, path):
    with open(path) as f:
        rp = json.load(f)
    c = rp['case']

    class R(object):
        def __init__(self):
            self.v = []
            self.evaluations = 0

        def violation(self, sig, what, d):
            self.v.append((sig, what))
    r = R()
    check_tree(r, c['rec'])
    for sig, what in r.v:
        print('still violates:', sig, what[:300])
    return 1 if r.v else 0
