# -*- coding: utf-8 -*-
"""Turns an abstract Inject.tla configuration record into a real clastic Application with
instrumented middleware / endpoint / render functions, runs requests, and projects what every
function received back to the spec's source tags.  (C01, C02, C04; reused by C03.)"""
import random

RESERVED = ('request', '_application', '_route', '_dispatch_state', 'context', 'next')


class Default(object):
    def __init__(self, fid, name):
        self.fid, self.name = fid, name


class ResObj(object):
    def __init__(self, name):
        self.name = name


class Provided(object):
    def __init__(self, m, ph, name, reqno):
        self.m, self.ph, self.name, self.reqno = m, ph, name, reqno


class EpResult(object):
    def __init__(self, reqno):
        self.reqno = reqno


class World(object):
    """everything the generated functions talk to"""
    def __init__(self):
        self.calls = []      # (m, ph, {name: value})
        self.reqno = 0
        self.ep_returns_response = False


def _sig(params, rng, is_mw, bad_next, allow_kwonly, allow_posonly, extra_next=None):
    """params: list of (name, defaulted).  Returns (signature text without self, dict name->default expr)"""
    req = [n for n, d in params if not d]
    opt = [n for n, d in params if d]
    rng.shuffle(req)
    rng.shuffle(opt)
    kw = []
    if allow_kwonly:
        for lst in (req, opt):
            for nm in list(lst):
                if rng.random() < 0.35:
                    lst.remove(nm)
                    kw.append((nm, lst is opt))
    po = []
    po_opt = []
    if allow_posonly and not is_mw and opt and rng.random() < 0.5:
        # "gap mode": every required positional parameter and some defaulted ones are positional-only
        # (def f(a, b=D, c=D, /, d=D)); what is left of the required ones has to be keyword-only
        k = rng.randint(1, len(opt))
        po, po_opt, opt = list(req), opt[:k], opt[k:]
        req = []
    elif allow_posonly and req and not is_mw and rng.random() < 0.7:
        k = rng.randint(1, len(req))
        po, req = req[:k], req[k:]
    parts = []
    if is_mw:
        if bad_next == 'second':
            parts.append('request')       # something else first, next second
            parts.append('next')
            req = [r_ for r_ in req if r_ != 'request']
            opt = [r_ for r_ in opt if r_ != 'request']            # (wherever `request` was declared: it is the first
            kw = [(nm, d) for nm, d in kw if nm != 'request']      # positional parameter of this malformed function now)
            po = [r_ for r_ in po if r_ != 'request']
            po_opt = [r_ for r_ in po_opt if r_ != 'request']
        elif bad_next == 'absent':
            pass
        else:
            parts.append('next')
    parts += po
    parts += ['%s=DEFAULTS[%r]' % (nm, nm) for nm in po_opt]
    if po or po_opt:
        parts.append('/')
    parts += req
    parts += ['%s=DEFAULTS[%r]' % (nm, nm) for nm in opt]
    if extra_next == 'req':
        # a required `next` has to precede defaulted positionals
        parts = [p for p in parts if '=' not in p] + ['next'] + [p for p in parts if '=' in p]
    elif extra_next == 'opt':
        parts.append('next=None')
    if kw:
        parts.append('*')
        parts += [('%s=DEFAULTS[%r]' % (nm, nm)) if d else nm for nm, d in kw]
    kinds = dict([(nm, 'po') for nm in po + po_opt] + [(nm, 'kw') for nm, _d in kw])
    kinds['__po_order__'] = po + po_opt
    return ', '.join(parts), kinds


CARRIERS = ('function', 'lambda', 'method', 'callable_obj', 'staticmethod', 'classmethod', 'decorated', 'decorated_method',
            'decorated_callable_obj', 'decorated_classmethod', 'decorated_by_class')


def _wrap_carrier(carrier, sig, body_call, names, env):
    """returns a callable with signature `sig` that evaluates RECORD(dict(names...)).
    body_call is an expression string using local names."""
    kwd = ', '.join('%s=%s' % (nm, nm) for nm in names)
    call = '%s(dict(%s))' % (body_call, kwd)
    if carrier == 'lambda':
        src = 'f = lambda %s: %s' % (sig, call)
        exec(src, env)
        return env['f']
    if carrier == 'function':
        src = 'def f(%s):\n    return %s\n' % (sig, call)
        exec(src, env)
        return env['f']
    if carrier == 'decorated':
        from functools import wraps
        from clastic.decorators import clastic_decorator

        def deco(fn):
            @wraps(fn)
            def g(*a, **kw):
                return fn(*a, **kw)
            return g
        src = 'def f(%s):\n    return %s\n' % (sig, call)
        exec(src, env)
        return clastic_decorator(deco)(env['f'])
    if carrier == 'decorated_by_class':
        # clastic_decorator around a CLASS-based decorator: the decorated thing is an object, not a function
        from clastic.decorators import clastic_decorator

        class CallCounter(object):
            def __init__(self, func):
                self.func = func
                self.calls = 0

            def __call__(self, *a, **kw):
                self.calls += 1
                return self.func(*a, **kw)
        src = 'def f(%s):\n    return %s\n' % (sig, call)
        exec(src, env)
        return clastic_decorator(CallCounter)(env['f'])
    if carrier in ('decorated_method', 'decorated_callable_obj', 'decorated_classmethod'):
        # clastic_decorator applied to a bound method / callable object / class method
        from functools import wraps
        from clastic.decorators import clastic_decorator

        def deco2(fn):
            @wraps(fn)
            def g(*a, **kw):
                return fn(*a, **kw)
            return g
        inner = _wrap_carrier({'decorated_method': 'method', 'decorated_callable_obj': 'callable_obj',
                               'decorated_classmethod': 'classmethod'}[carrier], sig, body_call, names, env)
        return clastic_decorator(deco2)(inner)
    selfsig = ('self, ' + sig) if sig else 'self'
    if carrier == 'method':
        src = 'class C(object):\n    def f(%s):\n        return %s\n' % (selfsig, call)
        exec(src, env)
        return env['C']().f
    if carrier == 'callable_obj':
        src = 'class C(object):\n    def __call__(%s):\n        return %s\n' % (selfsig, call)
        exec(src, env)
        return env['C']()
    if carrier == 'staticmethod':
        src = 'class C(object):\n    @staticmethod\n    def f(%s):\n        return %s\n' % (sig, call)
        exec(src, env)
        return env['C'].f
    if carrier == 'classmethod':
        clssig = ('cls, ' + sig) if sig else 'cls'
        src = 'class C(object):\n    @classmethod\n    def f(%s):\n        return %s\n' % (clssig, call)
        exec(src, env)
        return env['C'].f
    raise ValueError(carrier)


class Built(object):
    pass


def build(rec, seed=0, kwonly=True, posonly=False, carriers=True, methods=None):
    """Construct the application described by rec.  Returns Built with .outcome ('ok' or exception
    class name), .app, .world, ..."""
    from clastic import Application, Route, Response
    from clastic.middleware import Middleware
    rng = random.Random(seed)
    W = World()
    b = Built()
    b.world = W
    b.kinds = {}
    b.carriers = {}
    n, n_app = rec['n'], rec['nApp']
    params = {}
    for p in rec['P']:
        params.setdefault(p['f'], []).append((p['n'], p['d']))
    provs = {}
    for v in rec['V']:
        provs.setdefault((v['m'], v['ph']), []).append(v['n'])
    bare = set(tuple(x) for x in rec['bare'])
    max_mw = rec.get('MaxMw', None)
    epf, rnf = rec['EPF'], rec['RNF']
    bad = rec['bad']
    phase_attr = {1: 'request', 2: 'endpoint', 3: 'render'}
    prov_attr = {1: 'provides', 2: 'endpoint_provides', 3: 'render_provides'}

    def fid(m, ph):
        return (m - 1) * 3 + ph

    mws = []
    shared_type = type('MwSharedNonUnique', (Middleware,), {'unique': False}) if (n >= 2 and seed % 4 == 0) else None
    for m in range(1, n + 1):
        attrs = {}
        for ph in (1, 2, 3):
            declared = sorted(provs.get((m, ph), []))
            rng.shuffle(declared)            # the declared order of a provides tuple is arbitrary ...
            attrs[prov_attr[ph]] = tuple(declared)
            f = fid(m, ph)
            exists = bool(params.get(f)) or (m, ph) in bare
            if not exists:
                continue
            bad_next = None
            if bad['k'] == 'mwnext' and bad['a'] == m and bad['b'] == ph:
                bad_next = rng.choice(['second', 'absent'])
            plist = sorted(params.get(f, []))
            sig, kinds = _sig(plist, rng, True, bad_next, kwonly, False)
            b.kinds[f] = kinds
            names = [nm for nm, _d in plist]
            env = {'DEFAULTS': dict((nm, Default(f, nm)) for nm in names), 'W': W, 'Provided': Provided}
            has_next = bad_next is None or bad_next == 'second'
            recname = '_rec_%d_%d' % (m, ph)

            def recorder(kw, m=m, ph=ph, pnames=attrs[prov_attr[ph]], positional=(rng.random() < 0.5)):
                nxt = kw.pop('next', None)
                W.calls.append((m, ph, dict(kw)))
                if nxt is None:
                    return Response('no next')
                if positional:
                    # ... and next() may be called positionally in exactly that declared order
                    return nxt(*[Provided(m, ph, pn, W.reqno) for pn in pnames])
                return nxt(**dict((pn, Provided(m, ph, pn, W.reqno)) for pn in pnames))
            env[recname] = recorder
            allnames = names + (['next'] if has_next else [])
            if bad_next == 'second' and 'request' not in names:
                pass
            kwd = ', '.join('%s=%s' % (nm, nm) for nm in allnames)
            selfsig = ('self, ' + sig) if sig else 'self'
            src = 'def f(%s):\n    return %s(dict(%s))\n' % (selfsig, recname, kwd)
            exec(src, env)
            attrs[phase_attr[ph]] = env['f']
        if shared_type is not None:
            # all middlewares are instances of ONE non-unique type (attributes on the instances): nothing is de-duplicated,
            # every instance keeps its position and its provides - conflicts included
            inst = shared_type()
            for k_, v_ in attrs.items():
                setattr(inst, k_, v_.__get__(inst, shared_type) if callable(v_) else v_)
            mws.append(inst)
        else:
            cls = type('Mw%d' % m, (Middleware,), attrs)
            mws.append(cls())
    b.mws = mws
    b.shared_type = shared_type is not None

    # endpoint
    def make_inner(f, ph, default_sig_names=()):
        plist = sorted(params.get(f, []))
        extra_next = None
        if bad['k'] == 'epnext' and bad['a'] == f:
            extra_next = rng.choice(['req', 'opt'])
        sig, kinds = _sig(plist, rng, False, None, kwonly, posonly, extra_next=extra_next)
        b.kinds[f] = kinds
        names = [nm for nm, _d in plist]
        env = {'DEFAULTS': dict((nm, Default(f, nm)) for nm in names), 'W': W}
        recname = '_rec_inner_%d' % ph

        def recorder(kw, ph=ph):
            W.calls.append((n + 1, ph, dict(kw)))
            if ph == 2:
                if W.ep_returns_response:
                    return Response('endpoint response')
                return EpResult(W.reqno)
            return Response('rendered')
        env[recname] = recorder
        carrier = rng.choice(CARRIERS) if carriers else 'function'
        b.carriers[f] = carrier
        return _wrap_carrier(carrier, sig, recname, names, env)

    endpoint = make_inner(epf, 2)
    render = make_inner(rnf, 3) if rec['hasRender'] else None
    url = sorted(rec['url'])
    # a literal first segment, so that a REPEATED slash can stand in front of every binding (the default slash mode
    # tolerates it; the value a function receives is still the segment, without any slash)
    pattern = '/p' + ''.join('/<%s>' % u for u in url)
    b.pattern = pattern
    b.path = '/p' + ''.join('/uv-%s' % u for u in url)
    b.path_slashes = '/p' + ''.join('//uv-%s' % u for u in url)
    b.nullpath = '/zz/zz/zz/zz'
    b.res = dict((nm, ResObj(nm)) for nm in rec['res'])
    b.rres = dict((nm, ResObj(nm)) for nm in rec['rres'])
    b.outcome = 'ok'
    b.exc = None
    b.app = None
    via_factory = render is not None and rng.random() < 0.35
    b.via_factory = via_factory
    factory = (lambda arg, _r=render: _r) if via_factory else None
    try:
        route = Route(pattern, endpoint, 'render-arg' if via_factory else render, middlewares=mws[n_app:], resources=b.rres,
                      methods=methods)
        b.route = route
        if rng.random() < 0.5:
            app = Application([route], resources=b.res, middlewares=mws[:n_app], render_factory=factory)
        else:
            app = Application([], resources=b.res, middlewares=mws[:n_app], render_factory=factory)
            app.add(route)
        b.app = app
    except Exception as e:  # noqa
        b.outcome = type(e).__name__
        b.exc = e
        b.exc_is_nameerror = isinstance(e, NameError)
        return b
    # a decoy route in front of the real one: same number of segments, binds the names of the real route's
    # route-level resources, admits only DELETE - so every GET/POST matches its path, is skipped for its method, and
    # must leave nothing behind (its URL values must not shadow the real route's resources)
    b.decoy = None
    if url:
        rnames = sorted(rec['rres'])[:len(url)]
        dnames = rnames + ['dz%d' % i for i in range(len(url) - len(rnames))]
        try:
            decoy = Route('/p' + ''.join('/<%s>' % nm for nm in dnames), lambda: Response('decoy'), methods=['DELETE'])
            b.app.add(decoy, index=0)
            b.decoy = dnames
        except Exception as e:  # noqa  (not part of the configuration under test)
            b.decoy = 'not-added: %r' % (e,)
    # the application object is ALSO mounted into an unrelated parent (binding is non-destructive: requests served by
    # b.app itself must still see b.app as _application, its own routes as _route, its own resources)
    b.elsewhere = None
    if rng.random() < 0.5:
        try:
            b.elsewhere = Application([('/elsewhere', b.app)])     # the parent defines nothing itself: everything the routes
            # need comes along with the embedded application's own resources and middlewares
        except Exception as e:  # noqa  (not part of the configuration under test)
            b.elsewhere = 'not-embedded: %r' % (e,)
    return b


def tag_of(b, value, name, this_reqno, request_obj, app=None):
    from werkzeug.wrappers import BaseRequest
    app = app or b.app
    if isinstance(value, str) and value == 'uv-%s' % name:
        return ['url', name, 0, 0]
    if isinstance(value, ResObj):
        if b.res.get(name) is value or b.rres.get(name) is value:
            return ['res', name, 0, 0]
        return ['alien-res', name, 0, 0]
    if isinstance(value, Default):
        if value.name == name:
            return ['default', name, 0, 0]
        return ['alien-default', name, 0, 0]
    if isinstance(value, Provided):
        if value.reqno != this_reqno:
            return ['stale-provided', name, value.m, value.ph]
        if value.name != name:
            return ['crossed-provided', name, value.m, value.ph]
        return ['mw', name, value.m, value.ph]
    if isinstance(value, EpResult):
        if value.reqno != this_reqno:
            return ['stale-epresult', name, 0, 0]
        return ['epresult', name, 0, 0]
    if name == 'request' and isinstance(value, BaseRequest):
        if request_obj[0] is None:
            request_obj[0] = value
        if request_obj[0] is not value:
            return ['other-request', name, 0, 0]
        return ['builtin', name, 0, 0]
    if name == '_application' and value is app:
        return ['builtin', name, 0, 0]
    if name == '_route' and (value in app.routes or value is app._null_route):
        return ['builtin', name, 0, 0]
    if name == '_dispatch_state' and type(value).__name__ == 'DispatchState':
        return ['builtin', name, 0, 0]
    return ['alien', name, 0, 0]


def run_request(b, which, method='GET', ep_returns_response=False, via_parent=False, slashes=False):
    """which: 'main' | 'null'.  Returns (status or exception, observed calls as {(m,ph): {name: tag}})"""
    from werkzeug.test import Client
    from werkzeug.wrappers import BaseResponse
    W = b.world
    W.calls = []
    W.reqno += 1
    W.ep_returns_response = ep_returns_response
    serving = b.elsewhere if via_parent else b.app
    cl = Client(serving, BaseResponse)
    path = (b.path_slashes if slashes else b.path) if which == 'main' else b.nullpath
    if via_parent:
        path = '/elsewhere' + path
    err = None
    status = None
    try:
        resp = cl.open(path=path, method=method)
        status = resp.status_code
        body = resp.get_data(as_text=True)
    except Exception as e:  # noqa
        err = e
        body = ''
    request_obj = [None]
    obs = {}
    dup = False
    for (m, ph, kw) in W.calls:
        if (m, ph) in obs:
            dup = True
        obs[(m, ph)] = dict((nm, tag_of(b, v, nm, W.reqno, request_obj, serving)) for nm, v in kw.items())
    return status, err, obs, dup, body
