# -*- coding: utf-8 -*-
"""C08 - Every request gets a response; uncaught failures become the handler's 500.

L1  TLC on ErrPipe.tla: Total, EscapeOnlyIfReraise, HistoryFree (the outcome of a request is a function of
    application and request only), HttpKeepsStatus, NoStuck, ConfigImmutable over all histories within the bound.
L2  TLC-generated histories (application = handler kind x render_error kind; requests = behaviour x
    position) are replayed against ONE real application per history at the WSGI level; every request
    must yield the outcome TLC computed: a complete response with the expected status, or - only for the
    re-raising handler - the original exception object.  Behaviours are instantiated round-robin from
    palettes: 17 exception classes (non-ASCII, 200 kB, unprintable str/repr), every exported
    HTTPException class raised/returned/breaking/non-breaking, 7 non-Response values, Accept headers.
"""
import json
import random

import tlc
from common import spec, cfgpath


class BadStr(Exception):
    def __str__(self):
        raise RuntimeError('str() of this exception raises')


class BadRepr(Exception):
    def __repr__(self):
        raise RuntimeError('repr() of this exception raises')

    def __str__(self):
        raise RuntimeError('str() of this exception raises')


def exc_palette():
    return [lambda: ValueError('plain'), lambda: KeyError('k'), lambda: RuntimeError(u'non-ascii \xfc 日本'),
            lambda: Exception('x' * 200000), lambda: UnicodeDecodeError('utf8', b'\xff', 0, 1, 'bad'),
            lambda: ZeroDivisionError(), lambda: OSError(2, 'nope'), lambda: AssertionError(),
            lambda: StopIteration(), lambda: NotImplementedError('ni'), lambda: BadStr('a'), lambda: BadRepr('b'),
            lambda: LookupError(), lambda: MemoryError('m'), lambda: AttributeError('attr'),
            lambda: TypeError('some type error'), lambda: IndexError(5), lambda: RuntimeError('\x00\x01\x7f <script>'),
            # text that looks like template / format syntax
            lambda: KeyError('{missing}'), lambda: ValueError('braces {0} {x!r} {'), lambda: RuntimeError('}{ %s %(a)s {{}}')]


# detail texts of HTTP errors (plain, format-like, markup-like)
DETAILS = ['det-%d', 'det-%d {x} {0} {', 'det-%d }{ <b>&amp;</b> %%s', 'det-%d\nsecond line {y}']
NONRESP = ['a string', None, 5, 3.5, {'a': 1}, [1, 2], b'bytes', True]
ACCEPTS = [None, 'text/html', 'application/json', 'application/xml', 'text/plain', '*/*', 'image/png',
           'garbage;;;', 'text/html;q=0.1, application/json']


def http_palette():
    from clastic import errors
    out = []
    seen = set()

    def walk(c):
        for s in c.__subclasses__():
            if s not in seen:
                seen.add(s)
                if s.code and s.__module__ == 'clastic.errors' and not s.__name__.startswith('Contextual'):
                    out.append(s)
                walk(s)
    walk(errors.HTTPException)
    return sorted(out, key=lambda c: (c.code, c.__name__))


class World(object):
    def __init__(self):
        self.raised = None
        self.http = None


def build(cfg, W, embedded=False):
    from clastic import Application, Route, Response
    from clastic import errors
    from clastic.middleware import Middleware
    excs = exc_palette()
    https = http_palette()

    def act(beh, n):
        n = int(n)
        if beh == 'resp':
            return Response('plain response')
        if beh == 'nonresp':
            return NONRESP[n % len(NONRESP)]
        if beh == 'raiseExc':
            e = excs[n % len(excs)]()
            W.raised = e
            raise e
        cls = https[n % len(https)]
        W.http = cls
        if beh == 'raiseHttpB':
            raise cls(detail=DETAILS[n % len(DETAILS)] % n)
        if beh == 'returnHttpB':
            return cls(detail=DETAILS[n % len(DETAILS)] % n)
        if beh == 'raiseHttpNB':
            raise cls(detail=DETAILS[n % len(DETAILS)] % n, is_breaking=False)
        if beh == 'returnHttpNB':
            return cls(detail=DETAILS[n % len(DETAILS)] % n, is_breaking=False)
        raise AssertionError(beh)

    class Mw(Middleware):
        def request(self, next, beh, pos, n):
            if pos == 'rqmwBefore':
                return act(beh, n)
            ret = next()
            if pos == 'rqmwAfter':
                return act(beh, n)
            return ret

        def endpoint(self, next, beh, pos, n):
            if pos == 'epmwBefore':
                return act(beh, n)
            ret = next()
            if pos == 'epmwAfter':
                return act(beh, n)
            return ret

        def render(self, next, beh, pos, n):
            if pos == 'rnmwBefore':
                return act(beh, n)
            ret = next()
            if pos == 'rnmwAfter':
                return act(beh, n)
            return ret

    def endpoint(beh, pos, n):
        if pos == 'ep' and beh != 'ctx':
            return act(beh, n)
        if pos in ('rn', 'rnmwBefore', 'rnmwAfter') or beh == 'ctx':
            return {'ctx': 1}
        return Response('endpoint ok')

    def render(context, beh, pos, n):
        if pos == 'rn':
            return act(beh, n)
        return Response('rendered')

    base = {'default': errors.ErrorHandler, 'contextual': errors.ContextualErrorHandler,
            'reraise': errors.ErrorHandler}[cfg['handler']]
    attrs = {}
    if cfg['re'] == 'raises':
        def render_error(self, request, _error):
            raise RuntimeError('render_error is broken')
        attrs['render_error'] = render_error
    elif cfg['re'] == 'raiseshttp':
        def render_error(self, request, _error):
            raise errors.NotAcceptable('the error renderer gives up')
        attrs['render_error'] = render_error
    elif cfg['re'] == 'other':
        def render_error(self, request, _error):
            return errors.Gone('replaced by render_error')
        attrs['render_error'] = render_error
    elif cfg['re'] == 'nonresp':
        def render_error(self, request, _error):
            return 'render_error returned a string'
        attrs['render_error'] = render_error
    H = type('H', (base,), attrs)
    handler = H(reraise_uncaught=True) if cfg['handler'] == 'reraise' else H()
    mw = Mw()
    def m_get():
        return Response('answered-by-get-route')

    def m_post():
        return Response('answered-by-post-route')
    from clastic import GET, POST
    def typed(n, f=None):
        return Response('answered-by-typed-route %r %r' % (n, f))
    def never():
        return Response('the method-restricted sibling must never run')
    sib = []
    if cfg.get('sibling'):
        # same patterns, a method no request uses: skipped by the method check, allowed_methods becomes non-empty
        sib = [Route('/r/<beh>/<pos>/<n>', never, methods=['PUT']), Route('/n/<beh>/<pos>/<n>', never, methods=['PUT'])]
    routes = [GET('/m', m_get), POST('/m', m_post), ('/t/<n:int>', typed), ('/t/<n:int>/<f:float>', typed)] + sib + [
              Route('/r/<beh>/<pos>/<n>', endpoint, render, middlewares=[mw]),
              Route('/n/<beh>/<pos>/<n>', endpoint, middlewares=[mw])]
    if embedded:
        # the routes come from an EMBEDDED application that has an error handler of its own; every error is still rendered by
        # the serving application's handler (the embedded one's must never show up: it answers 599 to everything)
        class InnerHandler(errors.ErrorHandler):
            def render_error(self, request, _error):
                return errors.HTTPException('rendered by the embedded application', code=599)
        inner = Application(routes, error_handler=InnerHandler())
        routes = [('/', inner)]
    if not attrs and cfg.get('sibling'):
        # no custom error renderer: let the framework pick its default handler (as most applications do); re-raising is
        # switched on the way Application.serve() does it.  Other applications' handlers must not be affected by that.
        app = Application(routes, debug=(cfg['handler'] == 'contextual'))
        if cfg['handler'] == 'reraise':
            app.error_handler.reraise_uncaught = True
        return app
    return Application(routes, error_handler=handler)


def one_request(app, W, beh, pos, n, accept, method='GET'):
    from werkzeug.test import create_environ, run_wsgi_app
    use_norender = (pos in ('ep', 'epmwBefore', 'epmwAfter') and beh == 'nonresp') or (pos in ('ep', 'rqmwBefore', 'rqmwAfter', 'epmwBefore', 'epmwAfter')
                                                             and beh != 'ctx' and n % 2 == 1)
    path = '/%s/%s/%s/%d' % ('n' if use_norender else 'r', beh, pos, n)
    if beh in ('tOk', 'tBad'):
        method = 'GET' if method == 'HEAD' else method       # a HEAD response has no body to identify the route
        good = ['/t/5', '/t/-17', '/t/5/2.5', '/t/0/1e3']
        bad = ['/t/+ 5', '/t/- 3', '/t/5/+ .5', '/t/7/- 1e5', '/t/' + '9' * 5000]
        path = (good if beh == 'tOk' else bad)[n % (4 if beh == 'tOk' else 5)]
    if beh in ('mGet', 'mPost', 'mWrong'):
        path = '/m'
        method = {'mGet': 'GET', 'mPost': 'POST', 'mWrong': ['PUT', 'DELETE', 'PATCH'][n % 3]}[beh]
    headers = {'Accept': accept} if accept else {}
    env = create_environ(path, method=method, headers=headers)
    W.raised = None
    W.http = None
    try:
        app_iter, status, hdrs = run_wsgi_app(app, env)
        body = b''.join(app_iter)
        if hasattr(app_iter, 'close'):
            app_iter.close()
    except Exception as e:  # noqa
        same = e is W.raised
        return {'k': 'escape', 'cls': type(e).__name__, 'same_object': same, 'msg': repr(e)[:200] if not isinstance(e, (BadRepr,)) else 'BadRepr'}
    code = int(status.split()[0])
    by = 'get' if b'answered-by-get-route' in body else ('post' if b'answered-by-post-route' in body else
                                                            ('typed' if b'answered-by-typed-route' in body else None))
    clen = dict(hdrs).get('Content-Length')
    if clen is not None and method != 'HEAD' and code not in (204, 304) and int(clen) != len(body):
        # "a complete HTTP response": a server would cut the body short (or wait for bytes that never come)
        return {'k': 'escape', 'cls': 'ContentLengthMismatch', 'same_object': False,
                'msg': 'Content-Length %s but %d body bytes (status %d)' % (clen, len(body), code)}
    return {'k': 'status', 'code': code, 'len': len(body), 'own': W.http.code if W.http else None, 'by': by,
            'ctype': (dict(hdrs).get('Content-Type') or '').split(';')[0]}


def judge(exp, obs):
    """exp from TLC; returns signature or None"""
    if exp['k'] == 'escape':
        if obs['k'] != 'escape':
            return 'reraise-handler-did-not-reraise'
        if exp['exc'] == 'app' and not obs['same_object']:
            return 'escaped-exception-not-original'
        if exp['exc'] == 'TypeError' and obs['cls'] != 'TypeError':
            return 'escaped-wrong-exception'
        return None
    if obs['k'] == 'escape':
        return 'exception-escaped:%s' % obs['cls']
    st = exp['status']
    allowed = set()
    if st.startswith('otherOrSame:'):
        allowed.add(410)
        st = st.split(':', 1)[1]
    if st.startswith('ok:'):
        if obs.get('by') != st[3:]:
            return 'answered-by-wrong-route:%s->%s' % (st[3:], obs.get('by'))
        allowed.add(200)
    elif st == '405':
        allowed.add(405)
    elif st == '404':
        allowed.add(404)
    elif st == 'ok':
        allowed.add(200)
    elif st == '500':
        allowed.add(500)
    elif st == 'own':
        allowed.add(obs['own'])
    if obs['code'] not in allowed:
        return 'status:%s->%s' % (exp['status'], obs['code'])
    return None


def check(run):
    quick = run.tier == 'quick'
    E = spec('ErrPipe.tla')
    run.rule = ('histories of requests (behaviour x position) against one application (handler x render_error kind) generated by '
                'TLC, instantiated from palettes; non-trivial = request whose behaviour is not a plain Response/context')
    run.assumptions = ['BaseException subclasses (KeyboardInterrupt, SystemExit) are outside the quantifier',
                       'render_error returning another error: the response may carry either status']
    r = tlc.run_tlc(E, cfgpath('ErrPipe_quick.cfg' if quick else 'ErrPipe_thorough.cfg'), timeout=3000)
    run.add_tlc('ErrPipe exhaustive', r)
    run.exhaustive = r.complete
    if r.violated:
        run.tlc_violation('ErrPipe', r)
    e1 = tlc.run_tlc(E, cfgpath('ErrPipe_emit1.cfg'), workers=1)
    run.add_tlc('ErrPipe emission (every single-request history)', e1)
    e2 = tlc.run_tlc(E, cfgpath('ErrPipe_emit.cfg'), workers=1, simulate=(300 if quick else 6000), depth=70,
                     seed=run.seed + 61)
    run.add_tlc('ErrPipe emission (simulate, histories of 6)', e2)
    hists = e1.emits + tlc.pick(e2.emits, 400 if quick else 8000, run.seed)
    rng = random.Random(run.seed + 8)
    reps = 1 if quick else 12
    for hn, h in enumerate(hists):
        for rep in range(reps if len(h['hist']) == 1 else 1):
            W = World()
            embedded = (hn + rep) % 3 == 1
            app = build(h['cfg'], W, embedded)
            # "an error renderer that itself fails falls back to the DEFAULT rendering of the same error": the reference is the
            # same application with the stock renderer
            ref = None
            if h['cfg']['re'] in ('raises', 'nonresp', 'raiseshttp') and h['cfg']['handler'] != 'reraise':
                Wr = World()
                ref = (build(dict(h['cfg'], re='default'), Wr, embedded), Wr)
            patterns_before = [r_.pattern for r_ in app.routes]
            ok = True
            for q in h['hist']:
                n = rng.randint(0, 400)
                accept = rng.choice(ACCEPTS)
                method = rng.choice(['GET', 'GET', 'POST', 'HEAD'])
                obs = one_request(app, W, q['beh'], q['pos'], n, accept, method)
                run.evaluations += 1
                sig = judge(q['out'], obs)
                if not sig and ref is not None and obs.get('k') == 'status' and obs.get('code', 0) >= 400:
                    robs = one_request(ref[0], ref[1], q['beh'], q['pos'], n, accept, method)
                    if robs.get('k') == 'status' and (robs.get('code'), robs.get('ctype')) != (obs.get('code'), obs.get('ctype')):
                        sig = 'fallback-is-not-the-default-rendering:%s' % h['cfg']['re']
                        obs = dict(obs, default_rendering={'code': robs.get('code'), 'ctype': robs.get('ctype')})
                if q['beh'] not in ('resp', 'ctx'):
                    run.nontrivial.add(json.dumps([h['cfg'], q['beh'], q['pos'], n % 18]))
                if sig:
                    ok = False
                    if sig.startswith('exception-escaped'):
                        sig += ':render_error=' + h['cfg']['re']
                    run.violation(sig,
                                  'application %r, request %s at %s (n=%d, Accept=%r, %s): spec %r, observed %r'
                                  % (h['cfg'], q['beh'], q['pos'], n, accept, method, q['out'], obs),
                                  {'leg': 'L2', 'cfg': h['cfg'], 'hist': h['hist'], 'failing': q, 'n': n, 'accept': accept,
                                   'method': method, 'observed': obs, 'embedded': embedded})
            if [r_.pattern for r_ in app.routes] != patterns_before:
                ok = False
                run.violation('routing-table-changed', 'routes changed during a history', {'leg': 'L2', 'cfg': h['cfg']})
            if ok:
                run.traces += 1
        if hn < 2:
            run.sample({'cfg': h['cfg'], 'hist': h['hist'][:3]})


def replay(run, path):
    with open(path) as f:
        rp = json.load(f)
    c = rp['case']
    W = World()
    app = build(c['cfg'], W, c.get('embedded', False))
    q = c['failing']
    obs = one_request(app, W, q['beh'], q['pos'], c['n'], c['accept'], c['method'])
    sig = judge(q['out'], obs)
    print('expected', q['out'], 'observed', obs, '->', sig or 'conforms')
    return 1 if sig else 0
