# -*- coding: utf-8 -*-
"""Worker process: replays Inject.tla configuration records into the real code under one
PYTHONHASHSEED and reports discrepancies against the expectations TLC emitted with each record.
usage: inject_worker.py <in.json> <out.json>"""
import json
import os
import sys

HERE = os.path.dirname(os.path.abspath(__file__))
sys.path.insert(0, HERE)
import common  # noqa
common.fresh_repo_import()
import injectlib  # noqa

ARG_ERR = ('missing', 'unexpected keyword', 'positional-only', 'multiple values', 'positional argument')


def kinds_label(b):
    ks = set()
    for d in b.kinds.values():
        ks.update(v for k, v in d.items() if k != '__po_order__')
    if 'po' in ks:
        return 'posonly-parameter'
    if 'kw' in ks:
        return 'kwonly-parameter'
    return 'plain-parameters'


def expected_calls(rec, which, phases):
    out = {}
    for c in rec['calls'][which]:
        if c['ph'] in phases:
            out[(c['m'], c['ph'])] = dict((k['n'], k['src']) for k in c['kw'])
    return out


def check_one(rec, seed, opts):
    """returns list of (signature, what, detail)"""
    viol = []
    b = injectlib.build(rec, seed=seed, kwonly=opts.get('kwonly', True), posonly=opts.get('posonly', False),
                        carriers=opts.get('carriers', True), methods=['GET'])
    allowed = rec['allowed']
    info = {'outcome': b.outcome, 'kinds': kinds_label(b), 'carriers': sorted(set(b.carriers.values()))}
    detail = {'rec': rec, 'seed': seed, 'opts': opts, 'hashseed': os.environ.get('PYTHONHASHSEED'),
              'outcome': b.outcome, 'exc': repr(b.exc), 'kinds': b.kinds, 'carriers': b.carriers,
              'decoy': getattr(b, 'decoy', None), 'shared_type': getattr(b, 'shared_type', None), 'elsewhere': repr(getattr(b, 'elsewhere', None))[:80], 'via_factory': getattr(b, 'via_factory', None)}
    if b.outcome == 'ok':
        if 'ok' not in allowed:
            why = 'conflict' if rec['conflict'] else ('malformed' if rec['bad']['k'] != 'none' else 'unresolved')
            viol.append(('accepted-but-must-reject:%s:%s' % (why, kinds_label(b)),
                         'configuration constructed although the spec requires %r' % (allowed,), detail))
            return viol, info
    else:
        if allowed == ['ok']:
            viol.append(('rejected-but-must-accept:%s:%s' % (b.outcome, kinds_label(b)),
                         'construction raised %r although the configuration is resolvable and conflict-free' % (b.exc,), detail))
        elif 'NameError' in allowed and not b.exc_is_nameerror:
            viol.append(('wrong-exception:%s' % b.outcome,
                         'construction raised %r, the spec requires NameError' % (b.exc,), detail))
        return viol, info
    if opts.get('static'):
        sw = static_wiring(b, rec)
        info['static'] = sw is not None
        if sw is not None:
            exp = expected_calls(rec, 'main', (1, 2, 3))
            expn = dict((k, set(n for n, src in v.items() if src[0] != 'default')) for k, v in exp.items())
            if expn != sw:
                gap = False
                for k_, names_ in expn.items():
                    fidk_ = (k_[0] - 1) * 3 + k_[1] if k_[0] <= rec['n'] else (rec['EPF'] if k_[1] == 2 else rec['RNF'])
                    order_ = b.kinds.get(fidk_, {}).get('__po_order__', [])
                    missing_ = names_ - sw.get(k_, set())
                    for nm_ in missing_:
                        if nm_ in order_ and any(x not in names_ for x in order_[:order_.index(nm_)]):
                            gap = True
                viol.append(('static-wiring-differs:%s' % ('posonly-gap' if gap else kinds_label(b)),
                             'generated chain passes %r, spec says %r' % (sw, expn),
                             dict(detail, static=dict(('%d:%d' % k, sorted(v)) for k, v in sw.items()))))
    # accepted: run requests
    scen = [('main', 'GET', False, (1, 2, 3)), ('main', 'GET', True, (1, 2)),
            ('null', 'GET', False, (1, 2)), ('main', 'POST', False, None)]
    b.app.error_handler.reraise_uncaught = True
    via = [False] * len(scen)
    if rec['url']:
        scen = scen + [('main', 'GET', False, (1, 2, 3))]      # the same request with every slash in front of a binding doubled
        via = via + ['slashes']
    if not isinstance(getattr(b, 'elsewhere', None), (str, type(None))):
        # the same request through the unrelated parent the application was ALSO mounted into (the parent defines no
        # resources of its own: what the functions receive must still be the embedded application's)
        b.elsewhere.error_handler.reraise_uncaught = True
        scen = scen + [('main', 'GET', False, (1, 2, 3))]
        via = via + [True]
    for (which, method, epresp, phases), via_parent in zip(scen, via):
        real_which = which if method == 'GET' else 'null'     # POST to a GET-only route -> catch-all (405)
        if phases is None:
            phases = (1, 2)
        status, err, obs, dup, body = injectlib.run_request(b, which, method=method, ep_returns_response=epresp,
                                                            via_parent=(via_parent is True), slashes=(via_parent == 'slashes'))
        d2 = dict(detail, scenario=[which, method, epresp] + (['via-parent'] if via_parent is True else (['doubled-slashes'] if via_parent else [])), status=status, error=repr(err),
                  observed=dict(('%d:%d' % k, v) for k, v in obs.items()))
        if err is not None:
            msg = str(err)
            if isinstance(err, TypeError) and 'expected Response, received' in msg and not rec['hasRender'] \
                    and which == 'main' and method == 'GET' and not epresp:
                pass   # scenario artefact: no renderer and the endpoint returned a non-Response
            elif isinstance(err, TypeError) and any(x in msg for x in ARG_ERR):
                viol.append(('request-argument-failure:%s' % kinds_label(b),
                             'request failed with %r after construction succeeded' % (err,), d2))
                continue
            else:
                viol.append(('request-raised:%s' % type(err).__name__, 'unexpected exception %r' % (err,), d2))
                continue
        if opts.get('mode') == 'C01':
            # names only
            exp = expected_calls(rec, real_which, phases)
            expn = dict((k, sorted(n for n, src in v.items() if src[0] != 'default')) for k, v in exp.items())
            obsn = dict((k, sorted(n for n, t in v.items() if t[0] != 'default')) for k, v in obs.items()
                        if k[1] in phases)
            if dup:
                viol.append(('function-called-twice', 'a chain function ran twice in one request', d2))
            if expn != obsn:
                gap = False
                for k_, names_ in expn.items():
                    fidk_ = (k_[0] - 1) * 3 + k_[1] if k_[0] <= rec['n'] else (rec['EPF'] if k_[1] == 2 else rec['RNF'])
                    order_ = b.kinds.get(fidk_, {}).get('__po_order__', [])
                    for nm_ in set(names_) - set(obsn.get(k_, [])):
                        if nm_ in order_ and any(x not in names_ for x in order_[:order_.index(nm_)]):
                            gap = True
                viol.append(('passed-names-differ:%s' % ('posonly-gap' if gap else kinds_label(b)),
                             'functions received names %r, spec says %r' % (obsn, expn),
                             dict(d2, expected=dict(('%d:%d' % k, v) for k, v in expn.items()))))
        else:
            exp = expected_calls(rec, real_which, phases)
            obs2 = dict((k, v) for k, v in obs.items() if k[1] in phases)
            if set(exp) != set(obs2):
                viol.append(('chain-functions-differ', 'functions executed %r, spec says %r'
                             % (sorted(obs2), sorted(exp)), d2))
                continue
            for k in exp:
                if exp[k] != obs2[k]:
                    bad = [(nm, exp[k].get(nm), obs2[k].get(nm)) for nm in sorted(set(exp[k]) | set(obs2[k]))
                           if exp[k].get(nm) != obs2[k].get(nm)]
                    nm, e, o = bad[0]
                    fidk = (k[0] - 1) * 3 + k[1] if k[0] <= rec['n'] else (rec['EPF'] if k[1] == 2 else rec['RNF'])
                    kind = b.kinds.get(fidk, {}).get(nm, 'pos')
                    order = b.kinds.get(fidk, {}).get('__po_order__', [])
                    if kind == 'po' and o and o[0] == 'default' and nm in order and \
                            any(exp[k].get(x, [''])[0] == 'default' for x in order[:order.index(nm)]):
                        kind = 'po-gap'
                    viol.append(('wrong-source:%s->%s:%s' % (e[0] if e else 'absent', o[0] if o else 'absent',
                                                            {'kw': 'kwonly-parameter', 'po': 'posonly-parameter', 'po-gap': 'posonly-gap'}.get(kind, 'plain')),
                                 'function %r parameter %r: expected source %r, observed %r' % (k, nm, e, o),
                                 dict(d2, expected=dict(('%d:%d' % kk, v) for kk, v in exp.items()))))
                    break
    return viol, info


def static_wiring(b, rec):
    """Parse the generated chain sources of the bound route (branch-free code) and return, per chain
    function (m, ph), the set of names passed at its call site; None if the internals look different
    (then the leg is skipped, never a violation)."""
    import ast
    import linecache
    try:
        br = [r for r in b.app.routes if r.unbound_route is b.route][0]
        req_chain = br._execute
        out = {}
        n = rec['n']

        def mwseq(ph):
            ex = set()
            for p in rec['P']:
                if p['f'] <= 3 * n and (p['f'] - 1) % 3 + 1 == ph:
                    ex.add((p['f'] - 1) // 3 + 1)
            for m_, ph_ in rec['bare']:
                if ph_ == ph:
                    ex.add(m_)
            return sorted(ex)

        def levels(chain_fn):
            src = ''.join(linecache.getlines(chain_fn.__code__.co_filename))
            tree = ast.parse(src)
            res = []
            node = tree.body[0]
            while True:
                assert isinstance(node, ast.FunctionDef)
                inner = None
                ret = None
                for st in node.body:
                    if isinstance(st, ast.FunctionDef):
                        inner = st
                    elif isinstance(st, ast.Return):
                        ret = st
                    elif isinstance(st, ast.Assign):
                        pass
                    else:
                        raise AssertionError('unexpected statement in generated chain')
                call = ret.value
                assert isinstance(call, ast.Call) and isinstance(call.func, ast.Subscript)
                lvl = call.func.slice.value if isinstance(call.func.slice, ast.Constant) else call.func.slice.value.value
                names = set(k.arg for k in call.keywords)
                npos = [a.id for a in call.args]
                for k in call.keywords:
                    assert isinstance(k.value, ast.Name) and k.value.id == k.arg
                res.append((lvl, names | set(npos)))
                if inner is None:
                    break
                node = inner
            return sorted(res), chain_fn.__globals__['funcs']
        rq_levels, rq_funcs = levels(req_chain)
        seq = mwseq(1)
        assert len(rq_levels) == len(seq) + 1
        for (lvl, names), m_ in zip(rq_levels, seq):
            out[(m_, 1)] = names - {'next'}
        proc = rq_funcs[-1]
        ep_chain, rn_chain = proc.__globals__['endpoint'], proc.__globals__['render']
        for ph, ch in ((2, ep_chain), (3, rn_chain)):
            lv, _f = levels(ch)
            seq = mwseq(ph)
            assert len(lv) == len(seq) + 1
            for (lvl, names), m_ in zip(lv, seq + [n + 1]):
                if m_ == n + 1 and ph == 3 and not rec['hasRender']:
                    continue
                out[(m_, ph)] = names - {'next'}
        return out
    except Exception:  # noqa  (internals renamed / different shape: skip, do not alarm)
        return None


def main():
    with open(sys.argv[1]) as f:
        job = json.load(f)
    out = []
    for i, rec in enumerate(job['recs']):
        try:
            viol, info = check_one(rec, job['seed'] + i, job['opts'])
        except Exception as e:  # noqa
            import traceback
            out.append({'i': i, 'harness_error': traceback.format_exc()})
            continue
        out.append({'i': i, 'viol': viol, 'info': info})
    with open(sys.argv[2], 'w') as f:
        json.dump(out, f, default=repr)


if __name__ == '__main__':
    main()
