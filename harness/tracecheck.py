# -*- coding: utf-8 -*-
"""Generic batch trace validation (code -> spec).

Every <X>_Trace.tla follows one convention:
  * reads ndJsonDeserialize(IOEnv.TRACE_FILE); each line is a trace with a unique integer "tid"
  * invariant `Accept` prints <<"ACCEPT", tid>> when the whole trace was consumed
  * invariant `At` (diagnostic cfg) prints <<"AT", tid, l>> for every reached position
A trace is accepted iff TLC printed ACCEPT for it.  Rejected traces are re-run
through the diagnostic cfg to find the longest matched prefix.
"""
import tlc


def validate(run, name, module, cfg, diag_cfg, traces, nshards=16, timeout=3600):
    """returns (accepted_tids:set, rejected: dict tid -> longest matched prefix length)"""
    if not traces:
        return set(), {}
    results = tlc.run_sharded(module, cfg, traces, nshards=nshards, timeout=timeout, tag=name)
    accepted = set()
    inv_fail = []
    for r in results:
        run.states += r.distinct or r.generated
        run.transitions += r.generated
        for t in tlc.tagged(r, 'ACCEPT'):
            accepted.add(t[0])
        if r.violated:
            inv_fail.append(r)
    run.tlc_runs.append({'run': name + ' (trace validation, %d shard(s))' % len(results),
                         'generated': sum(r.generated for r in results),
                         'distinct': sum(r.distinct for r in results),
                         'wall_s': round(max(r.wall for r in results), 2),
                         'traces': len(traces)})
    all_tids = set(t['tid'] for t in traces)
    rejected = {}
    missing = all_tids - accepted
    if inv_fail and not missing:
        # an invariant failed on a state of an otherwise accepted trace set: surface it
        raise tlc.MachineryError('trace spec invariant %s failed but all traces accepted:\n%s'
                                 % (inv_fail[0].violated, inv_fail[0].cex))
    if missing:
        bad = [t for t in traces if t['tid'] in missing]
        # invariant failures stop a shard early, hiding later traces: re-run the missing
        # ones one per shard-slice until stable
        again = tlc.run_sharded(module, cfg, bad, nshards=min(len(bad), 64), timeout=timeout, tag=name + '-re')
        for r in again:
            for t in tlc.tagged(r, 'ACCEPT'):
                accepted.add(t[0])
        missing = all_tids - accepted
        bad = [t for t in traces if t['tid'] in missing]
        if len(bad) > 64:
            # still hidden ones possible: run strictly one by one in chunks
            for _ in range(6):
                again = tlc.run_sharded(module, cfg, bad, nshards=64, timeout=timeout, tag=name + '-re2')
                got = set()
                for r in again:
                    for t in tlc.tagged(r, 'ACCEPT'):
                        got.add(t[0])
                if not got:
                    break
                accepted |= got
                missing = all_tids - accepted
                bad = [t for t in traces if t['tid'] in missing]
        if bad and diag_cfg:
            diag = tlc.run_sharded(module, diag_cfg, bad[:200], nshards=min(len(bad), 16),
                                   timeout=timeout, tag=name + '-diag')
            best = {}
            for r in diag:
                for t in tlc.tagged(r, 'AT'):
                    best[t[0]] = max(best.get(t[0], 0), t[1])
            for t in bad:
                rejected[t['tid']] = best.get(t['tid'], 0)
        else:
            for t in bad:
                rejected[t['tid']] = -1
    return accepted, rejected
