# -*- coding: utf-8 -*-
"""Re-evaluate the whole seeded corpus against the CURRENT machinery (development tool, not a registered command).

usage: seedmatrix.py [-j N] [name-prefix ...]

For every /verif/seeded/<case>/ (patch.diff + meta.json): a scratch git worktree of /repo is created under /tmp, the patch is
applied THERE (never to /repo), and `bin/check <id> quick` is run for the case's own property plus every other check that
was ever recorded as detecting it, with VERIF_REPO pointing at the worktree and VERIF_OUT at a scratch output directory
(so /verif/evidence is not touched).  meta.json's `checks` / `detected_by` are rewritten, the worktree and its output are
removed.  Cases run N at a time.
"""
import json
import os
import shutil
import subprocess
import sys
import time
from concurrent.futures import ThreadPoolExecutor

VERIF = os.path.dirname(os.path.dirname(os.path.abspath(__file__)))
SEEDED = os.path.join(VERIF, 'seeded')


def sh(cmd, cwd=None, env=None, timeout=3600):
    e = dict(os.environ)
    if env:
        e.update(env)
    p = subprocess.run(cmd, shell=True, cwd=cwd, env=e, stdout=subprocess.PIPE, stderr=subprocess.STDOUT, timeout=timeout)
    return p.returncode, p.stdout.decode('utf8', 'replace')


def one(case):
    d = os.path.join(SEEDED, case)
    with open(os.path.join(d, 'meta.json')) as f:
        meta = json.load(f)
    pid = meta['property']
    checks = [pid] + [c for c in sorted(set(list(meta.get('checks', {})) + meta.get('detected_by', []))) if c != pid]
    wt = '/tmp/sm-%s-%d' % (case, os.getpid())
    out = wt + '-out'
    rc, o = sh('git -C /repo worktree add -q --detach %s HEAD' % wt)
    if rc != 0:
        return case, 'worktree failed: ' + o
    try:
        rc, o = sh('git apply %s' % os.path.join(d, 'patch.diff'), cwd=wt)
        if rc != 0:
            meta['applies'] = False
            return case, 'patch does not apply: ' + o[-300:]
        results = {}
        for c in checks:
            t0 = time.time()
            rcc, outc = sh('bin/check %s quick' % c, cwd=VERIF, env={'VERIF_REPO': wt, 'VERIF_OUT': out, 'PYTHONDONTWRITEBYTECODE': '1'})
            viol = [l for l in outc.splitlines() if l.startswith('VIOLATION')]
            whats = [l.strip() for l in outc.splitlines() if l.strip().startswith('what:')]
            results[c] = {'exit': rcc, 'violation_lines': len(viol), 'first_what': whats[0][:400] if whats else None,
                          'wall_s': round(time.time() - t0, 1), 'tail': outc.strip().splitlines()[-1][:300] if outc.strip() else ''}
        meta['checks'] = results
        meta['detected_by'] = [c for c, r in results.items() if r['exit'] == 1]
        meta['when'] = time.strftime('%Y-%m-%dT%H:%M:%SZ', time.gmtime())
        meta['ran'] = ['bin/check %s quick (change applied to a scratch worktree of /repo: VERIF_REPO)' % c for c in results]
        with open(os.path.join(d, 'meta.json'), 'w') as f:
            json.dump(meta, f, indent=1)
        return case, json.dumps({c: (r['exit'], r['wall_s']) for c, r in results.items()})
    finally:
        sh('git -C /repo worktree remove --force %s' % wt)
        shutil.rmtree(wt, ignore_errors=True)
        shutil.rmtree(out, ignore_errors=True)


def main():
    args = sys.argv[1:]
    j = 4
    if args and args[0] == '-j':
        j = int(args[1])
        args = args[2:]
    cases = sorted(c for c in os.listdir(SEEDED) if os.path.exists(os.path.join(SEEDED, c, 'meta.json')))
    if args:
        cases = [c for c in cases if any(c.startswith(a) for a in args)]
    with ThreadPoolExecutor(max_workers=j) as ex:
        for case, res in ex.map(one, cases):
            print(case, res, flush=True)
    return 0


if __name__ == '__main__':
    sys.exit(main())
