# -*- coding: utf-8 -*-
"""C07 - Trailing-slash redirects lead to the same resource in one hop.

L1  TLC on Slash.tla: CanonIdempotent, RedirectOnlyWhen, NeverInStrictOrRewrite, OneHop,
    QueryUnchanged, RewriteExecutes over every path shape (<= 3 segments, slash runs of 1-2,
    trailing 0-2) x mode inheritance x 7 route kinds x methods.
L2  TLC-generated two-step behaviours are replayed at the WSGI level (PATH_INFO carries the decoded
    path, QUERY_STRING the raw query): first answer, Location (parsed, unquoted) and the answer to
    the followed request are compared with the spec; segment ids are instantiated with texts
    containing URL-significant characters (? # % %41 space ; & = + quotes non-ASCII).
L3  random longer paths / more special texts are recorded and judged by TLC (Slash_Trace.tla).
"""
import json
import random
from urllib.parse import urlsplit, unquote_to_bytes

import tlc
import tracecheck
from common import spec, cfgpath

SPECIAL = [u'b c', u'b?c', u'b#c', u'b%c', u'b%41c', u'é', u'b;c', u'b&c=d', u'b+c', u"x'y\"z", u'<x>', u'%2F',
           u'a?', u'?', u'%', u'b%3Fc', u'日本', u'b,c', u'b@c:d', u'~b!', u'b*c(d)',
           # segments that are blank, start or end with a blank, or look like path syntax once decoded
           u' ', u'  ', u' b', u'b ', u'\t', u'.', u'..', u'%2e%2e', u'\u00a0']
QUERY = {'none': '', 'empty': '', 'q1': 'x=1', 'q2': 'x=%3F&y=a+b', 'q3': 'q=caf%C3%A9&r=%2F&s=a%26b',
         # raw (not percent-encoded) UTF-8 bytes, as a server hands them over in QUERY_STRING (latin-1 decoded)
         'q4': u'q=caf\xe9 \u2603'.encode('utf8').decode('latin1').replace(' ', '+')}


def norm_query(q):
    """non-ASCII bytes may legitimately come back percent-encoded; everything else must be byte-identical"""
    return ''.join(c if ord(c) < 128 else '%%%02X' % ord(c) for c in q).replace('%c3', '%C3')


def same_query(a, b):
    import re as _re
    up = lambda m: m.group(0).upper()
    return _re.sub(r'%[0-9a-fA-F]{2}', up, norm_query(a)) == _re.sub(r'%[0-9a-fA-F]{2}', up, norm_query(b))
KIND = {'rootB': '/', 'staticB': '/a/b/', 'staticL': '/a/b', 'singleB': '/a/<x>/', 'singleL': '/a/<x>',
        'multiB': '/a/<r*>/', 'multiL': '/a/<r*>'}


# the same bound pattern reached through different (prefix, inner pattern) splits of an embedding (Embed.tla: the bound
# pattern is the concatenation); '/a/b' + '/' makes the embedded application's ROOT route the branch '/a/b/'
SPLITS = {'rootB': [('/', '/')],
          'staticB': [('/a/b', '/'), ('/', '/a/b/'), ('/a/b/', '/'), ('/a', '/b/'), ('/a/b', '/'), ('/a/', '/b/')],
          'staticL': [('/', '/a/b'), ('/a', '/b')],
          'singleB': [('/', '/a/<x>/'), ('/a', '/<x>/')], 'singleL': [('/', '/a/<x>'), ('/a', '/<x>')],
          'multiB': [('/', '/a/<r*>/'), ('/a', '/<r*>/')], 'multiL': [('/', '/a/<r*>'), ('/a', '/<r*>')]}


class Log(object):
    def __init__(self):
        self.calls = []


APPS = {}


def build(cfg, log, split=0):
    from clastic import Application, Route, Response

    def ep(request, x=None, r=None):
        log.calls.append({'x': x, 'r': r, 'qs': request.query_string.decode('latin1')})
        return Response('ok')
    methods = None if cfg['methods'] == 'any' else ['GET']
    from clastic import SubApplication
    if cfg.get('embed'):
        options = SPLITS[cfg['kind']]
        prefix, pat = options[split % len(options)]
        route = Route(pat, ep, methods=methods, slash_mode=cfg['routeMode'])
        inner = Application([route], slash_mode=cfg['innerMode'])
        if split % 2:
            outer = Application([SubApplication(prefix, inner, inherit_slashes=cfg['inherit'])], slash_mode=cfg['appMode'])
        else:
            # the same embedding spelled as add((prefix, app), inherit_slashes=...): the explicit keyword decides
            outer = Application(slash_mode=cfg['appMode'])
            outer.add((prefix, inner), inherit_slashes=cfg['inherit'])
        outer._verif_log = log
        return outer
    route = Route(KIND[cfg['kind']], ep, methods=methods, slash_mode=cfg['routeMode'])
    app = Application(slash_mode=cfg['appMode'])
    app.add(route, inherit_slashes=cfg['inherit'])
    app._verif_log = log
    return app


def path_text(p, texts):
    s = ''
    for e in p['els']:
        s += '/' * e['run'] + texts[e['seg']]
    s += '/' * p['trail']
    return s


def send(app, log, decoded_path, raw_query, method, mount=''):
    from werkzeug.test import create_environ, run_wsgi_app
    # mount: the application lives under a prefix of the server's URL space (SCRIPT_NAME): "the same URL" includes it
    env = create_environ('/', base_url='http://localhost%s/' % mount)
    env['PATH_INFO'] = decoded_path.encode('utf8').decode('latin1')
    env['QUERY_STRING'] = raw_query
    env['REQUEST_METHOD'] = method
    log.calls = []
    app_iter, status, headers = run_wsgi_app(app, env)
    body = b''.join(app_iter)
    if hasattr(app_iter, 'close'):
        app_iter.close()
    code = int(status.split()[0])
    return code, headers, list(log.calls)


def project(cfg, code, headers, calls, texts_rev, req_query_raw, mount=''):
    """abstract answer: k, path (for redirects), query id-equality flag, params"""
    if calls:
        c = calls[-1]
        kind = cfg['kind']
        if kind == 'rootB':
            segs = []
        elif kind.startswith('static'):
            segs = ['a', 'b']
        elif kind.startswith('single'):
            segs = ['a', c['x']]
        else:
            segs = ['a'] + [v for v in (c['r'] or []) if v != '']
        return {'k': 'exec' if code == 200 else 'exec-but-%d' % code,
                'params': [texts_rev.get(s, 'UNKNOWN:' + repr(s)) for s in segs],
                'query_same': same_query(c['qs'], req_query_raw), 'raw': None}
    if code in (301, 302, 303, 307, 308):
        loc = headers.get('Location')
        sp = urlsplit(loc)
        lpath = sp.path
        if mount:
            lpath = lpath[len(mount):] if lpath.startswith(mount + '/') else '/OUTSIDE-THE-MOUNT' + lpath
        dec = unquote_to_bytes(lpath).decode('utf8', 'replace')
        return {'k': 'redirect', 'loc': loc, 'dec_path': dec, 'loc_query': sp.query, 'fragment': sp.fragment,
                'query_same': same_query(sp.query, req_query_raw) and sp.fragment == ''}
    if code == 404:
        return {'k': '404'}
    if code == 405:
        return {'k': '405'}
    return {'k': 'status-%d' % code}


def exchange(cfg, req, texts, force_split=None):
    """returns (o1, o2 or None) projected observations + diagnostics"""
    log = Log()
    import zlib
    crc = zlib.crc32(json.dumps([cfg, req['path'], req['method']], sort_keys=True).encode('utf8'))     # (not the query)
    # one long-lived application per (configuration, split): every exchange is served by an application that has already
    # answered other requests - other paths, other queries, earlier redirects to the same canonical path
    split = crc % 12 if force_split is None else force_split
    key = (json.dumps(cfg, sort_keys=True), split)
    if key not in APPS:
        if len(APPS) > 4000:
            APPS.clear()
        APPS[key] = (build(cfg, Log(), split=split), )
    app = APPS[key][0]
    log = app._verif_log
    mount = '/mnt' if (crc >> 9) % 3 == 0 else ''
    rev = dict((v, k) for k, v in texts.items())
    p = path_text(req['path'], texts)
    q = QUERY[req['query']]
    code, headers, calls = send(app, log, p, q, req['method'], mount)
    o1 = project(cfg, code, headers, calls, rev, q, mount)
    o2 = None
    if o1['k'] == 'redirect':
        code2, headers2, calls2 = send(app, log, o1['dec_path'], o1['loc_query'], req['method'], mount)
        o2 = project(cfg, code2, headers2, calls2, rev, q, mount)
    return o1, o2, p


def canon_text(p, texts):
    return path_text({'els': [{'run': 1, 'seg': e['seg']} for e in p['els']], 'trail': 1}, texts)


def compare(rec, o1, o2, texts):
    a1, a2 = rec['ans1'], rec['ans2']
    if o1['k'] != a1['k']:
        return 'first-answer:%s->%s' % (a1['k'], o1['k'])
    if a1['k'] == 'exec':
        if o1['params'] != a1['params']:
            return 'exec-params-differ'
        if not o1['query_same']:
            return 'query-changed'
    if a1['k'] == 'redirect':
        if o1['dec_path'] != path_text(a1['path'], texts):
            return 'location-path-not-canonical-decoded-path'
        if not o1['query_same']:
            return 'location-query-changed'
        if o2 is None or o2['k'] != a2['k']:
            return 'second-answer:%s->%s' % (a2['k'], o2['k'] if o2 else None)
        if o2['params'] != a2['params']:
            return 'followed-redirect-different-resource'
        if not o2['query_same']:
            return 'followed-redirect-query-changed'
    return None


def check(run):
    quick = run.tier == 'quick'
    S = spec('Slash.tla')
    run.rule = ('two-step behaviours (configuration, request path shape, query, method) from Slash.tla with segment ids '
                'instantiated from a palette of 21 URL-significant texts; non-trivial = the path matches the route pattern '
                '(the answer is not a plain 404)')
    run.assumptions = ['query equality is judged at the WSGI level (QUERY_STRING), so a dangling "?" is not a difference',
                       'multi-binding empty entries on rewrite (known finding of C05) are projected away']
    r = tlc.run_tlc(S, cfgpath('Slash_quick.cfg' if quick else 'Slash_thorough.cfg'), timeout=3000)
    run.add_tlc('Slash exhaustive', r)
    run.exhaustive = r.complete
    if r.violated:
        run.tlc_violation('Slash', r)
    rng = random.Random(run.seed + 5)
    recs = []
    import common
    for mins in (1, 2, 3):
        text = open(cfgpath('Slash_emit.cfg')).read().replace('MinSegs = 0', 'MinSegs = %d' % mins)
        cfg2 = common.write_cfg('Slash_emit_%d' % mins, text)
        e = tlc.run_tlc(S, cfg2, workers=1, simulate=(1200 if quick else 20000), depth=12, seed=run.seed + 50 + mins)
        run.add_tlc('Slash emission (simulate, >= %d segments)' % mins, e)
        recs += e.emits
    recs = tlc.pick(recs, 3000 if quick else 50000, run.seed)
    for n, rec in enumerate(recs):
        sp = rng.sample(SPECIAL, 2)
        texts = {'a': 'a', 'b': 'b', 's1': sp[0], 's2': sp[1]}
        o1, o2, ptxt = exchange(rec['cfg'], rec['req'], texts)
        run.evaluations += 1
        sig = compare(rec, o1, o2, texts)
        if not sig and rec['cfg'].get('embed') and rec['cfg']['kind'] == 'staticB':
            # the same behaviour with the pattern split as prefix '/a/b' + the embedded application's ROOT route '/'
            o1r, o2r, _p = exchange(rec['cfg'], rec['req'], texts, force_split=0)
            sig = compare(rec, o1r, o2r, texts)
            if sig:
                sig += ':embedded-root-route'
                o1, o2 = o1r, o2r
        if not sig and rec['ans1']['k'] == 'redirect':
            # the same path again, on the same application, with ANOTHER query string: the answer is the same, with this query
            other = 'q2' if rec['req']['query'] != 'q2' else 'q3'
            o1b, o2b, _p = exchange(rec['cfg'], dict(rec['req'], query=other), texts)
            sig = compare(rec, o1b, o2b, texts)
            if sig:
                sig += ':second-request-other-query'
                o1, o2 = o1b, o2b
        if rec['ans1']['k'] != '404':
            run.nontrivial.add(json.dumps([rec['cfg'], rec['req'], sp], sort_keys=True))
        if sig:
            run.violation(sig, 'path %r query %r: spec %r / %r, observed %r / %r'
                          % (ptxt, QUERY[rec['req']['query']], rec['ans1'], rec['ans2'], o1, o2),
                          {'leg': 'L2', 'rec': rec, 'texts': texts, 'o1': o1, 'o2': o2, 'path': ptxt})
        else:
            run.traces += 1
        if n < 2 or (rec['ans1']['k'] == 'redirect' and len(run.samples) < 4):
            run.sample({'cfg': rec['cfg'], 'path': ptxt, 'query': QUERY[rec['req']['query']],
                        'method': rec['req']['method'], 'spec': [rec['ans1']['k'], rec['ans2']['k']],
                        'observed': [o1, o2]})
    # ---- L3: random, longer, recorded and judged by TLC
    traces = []
    kinds = sorted(KIND)
    modes = ['redirect', 'strict', 'rewrite']
    for tid in range(1, (400 if quick else 20000) + 1):
        cfg = {'appMode': rng.choice(modes), 'routeMode': rng.choice(modes), 'innerMode': rng.choice(modes),
               'embed': rng.random() < 0.4, 'inherit': rng.random() < 0.6,
               'kind': rng.choice(kinds), 'methods': rng.choice(['any', 'GET'])}
        nseg = rng.choice([0, 1, 2, 2, 2, 3, 3, 4, 5])
        texts = {'a': 'a', 'b': 'b'}
        els = []
        for i in range(nseg):
            if i == 0 and rng.random() < 0.85:
                seg = 'a'
            elif i == 1 and rng.random() < 0.4:
                seg = 'b'
            else:
                t = rng.choice(SPECIAL)
                seg = [k for k, v in texts.items() if v == t]
                seg = seg[0] if seg else 's%d' % (len(texts) - 1)
                texts[seg] = t
            els.append({'run': rng.choice([1, 1, 1, 2, 3]), 'seg': seg})
        trail = rng.choice([0, 1, 1, 2, 3]) if els else rng.choice([1, 2, 3])
        req = {'path': {'els': els, 'trail': trail}, 'query': rng.choice(sorted(QUERY)),
               'method': rng.choice(['GET', 'GET', 'POST', 'HEAD'])}
        o1, o2, ptxt = exchange(cfg, req, texts)
        rev = dict((v, k) for k, v in texts.items())

        def absr(o):
            if o is None:
                return {'k': '-', 'path': {'els': [], 'trail': 1}, 'query': 'none', 'params': []}
            out = {'k': o['k'], 'path': {'els': [], 'trail': 1}, 'params': o.get('params', []),
                   'query': req['query'] if o.get('query_same', True) else 'CHANGED'}
            if o['k'] == 'redirect':
                # abstract the decoded Location path back into (run, seg) pairs
                dp = o['dec_path']
                els2, run_, cur = [], 0, ''
                for ch in dp:
                    if ch == '/':
                        if cur:
                            els2.append({'run': run_, 'seg': rev.get(cur, 'UNKNOWN')})
                            cur, run_ = '', 0
                        run_ += 1
                    else:
                        cur += ch
                if cur:
                    els2.append({'run': run_, 'seg': rev.get(cur, 'UNKNOWN')})
                    run_ = 0
                out['path'] = {'els': els2, 'trail': run_}
            return out
        traces.append({'tid': tid, 'cfg': cfg, 'req': req, 'o1': absr(o1), 'followed': o2 is not None, 'o2': absr(o2),
                       '_path': ptxt, '_texts': texts})
    acc, rej = tracecheck.validate(run, 'Slash_Trace', spec('Slash_Trace.tla'), cfgpath('Slash_Trace.cfg'), None,
                                   [{k: v for k, v in t.items() if not k.startswith('_')} for t in traces])
    run.traces += len(acc)
    run.evaluations += len(traces)
    run.notes['l3_records'] = {'recorded': len(traces), 'accepted': len(acc), 'rejected': len(rej)}
    for t in traces:
        if t['tid'] in acc and t['o1']['k'] != '404':
            run.nontrivial.add('l3:%d' % t['tid'])
        if t['tid'] in rej:
            o1 = t['o1']
            sig = 'l3:' + ('redirect-rejected' if o1['k'] == 'redirect' else 'answer-rejected:' + o1['k'])
            run.violation(sig, 'recorded exchange for %r is not a behaviour of Slash.tla: %r' % (t['_path'], t),
                          dict(t, leg='L3'))


def replay(run, path):
    with open(path) as f:
        rp = json.load(f)
    c = rp['case']
    if 'rec' in c:
        o1, o2, ptxt = exchange(c['rec']['cfg'], c['rec']['req'], c['texts'])
        sig = compare(c['rec'], o1, o2, c['texts'])
        print(ptxt, o1, o2, '->', sig or 'conforms')
        return 1 if sig else 0
    o1, o2, ptxt = exchange(c['cfg'], c['req'], c['_texts'])
    print(ptxt, o1, o2)
    return 1
