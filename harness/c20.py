# -*- coding: utf-8 -*-
"""C20 - The Flaw failsafe page works for any start-up error text.

L1  TLC on Flaw.tla: the supervising loop of the development server (child start / reload / failed
    start -> failsafe -> fix -> restart) never gets stuck in the failsafe (FailsafeAlwaysUsable).
L2  TLC enumerates (text class, file-list class) pairs with the page requirements; each is instantiated
    with several concrete texts - REAL tracebacks produced by raising a catalogue of exception types at
    several stack depths in a subprocess (incl. chained exceptions and SyntaxError reports), truncated
    and concatenated tracebacks, random printable / non-printable text, markup, template syntax, empty,
    None, bytes - and file lists (None, empty, long, names with markup / non-ASCII).  flaw.create_app is
    called, several paths / methods are requested, and the page is projected with html.parser
    (text contained after unescaping? file names contained? exception type and message named? markup
    originating from the input?).  TLC judges every record (Flaw_Trace.tla).
"""
import html.parser
import json
import random
import subprocess
import sys

import tlc
import tracecheck
from common import spec, cfgpath

MARK = 'zq9x'

TB_SCRIPT = r'''
import sys, traceback
kind, depth, msg = sys.argv[1], int(sys.argv[2]), sys.argv[3]
def f(n):
    if n == 0:
        if kind == "chained":
            try:
                {}["k"]
            except KeyError as e:
                raise RuntimeError(msg) from e
        if kind == "qualified":
            import subprocess
            raise subprocess.CalledProcessError(2, msg)
        if kind == "qualified_chained":
            import subprocess
            try:
                {}["db"]
            except KeyError as e:
                raise subprocess.CalledProcessError(3, msg) from e
        exc = {"ValueError": ValueError, "KeyError": KeyError, "ImportError": ImportError, "ZeroDivisionError": ZeroDivisionError,
               "NameError": NameError, "AttributeError": AttributeError, "OSError": OSError, "UnicodeDecodeError": None,
               "AssertionError": AssertionError, "TypeError": TypeError, "RuntimeError": RuntimeError}[kind]
        if kind == "UnicodeDecodeError":
            b"\xff".decode("utf8")
        raise exc(msg)
    return f(n - 1)
f(depth)
'''


def real_traceback(kind, depth, msg):
    p = subprocess.run([sys.executable, '-c', TB_SCRIPT, kind, str(depth), msg], stdout=subprocess.PIPE, stderr=subprocess.PIPE)
    return p.stderr.decode('utf8', 'replace')


def syntax_error_report():
    p = subprocess.run([sys.executable, '-c', 'def broken(:\n    pass\n'], stdout=subprocess.PIPE, stderr=subprocess.PIPE)
    return p.stderr.decode('utf8', 'replace')


def texts_for(tc, rng, cache):
    """list of (text, exc_type or None, exc_msg or None)"""
    if 'std' not in cache:
        cache['std'] = []
        for kind, msg in (('ValueError', 'plain message'), ('KeyError', 'missing'), ('ImportError', 'No module named plarp'),
                          ('ZeroDivisionError', 'division by zero'), ('NameError', "name 'plarp' is not defined"),
                          ('OSError', 'disk on fire'), ('AssertionError', 'assert this'), ('TypeError', 'bad <type> & "quotes"')):
            for depth in (0, 3, 12):
                cache['std'].append((real_traceback(kind, depth, msg), kind, msg))
        cache['nonascii'] = [(real_traceback('ValueError', 2, u'caf\xe9 ☃ zq9x'), 'ValueError', u'caf\xe9 ☃ zq9x')]
        cache['huge'] = [(real_traceback('RuntimeError', 1, 'x' * 20000), 'RuntimeError', 'x' * 100)]
        cache['chained'] = [(real_traceback('chained', 2, 'outer failure'), 'RuntimeError', 'outer failure')]
        for kind in ('qualified', 'qualified_chained'):
            tb = real_traceback(kind, 1, 'startcmd')
            last = tb.strip().splitlines()[-1]
            et, _, em = last.partition(': ')
            cache['chained'].append((tb, et, em))
            # start-up output in front of the traceback (the text still ends with 'ExceptionType: message')
            cache['chained'].append(('WARNING: config file not found, using defaults\nINFO: starting\n' + tb, et, em))
        cache['syntax'] = [(syntax_error_report(), None, None)]
    if tc == 'StdTraceback':
        return cache['std']
    if tc == 'StdTracebackNonAscii':
        return cache['nonascii']
    if tc == 'StdTracebackHuge':
        return cache['huge']
    if tc == 'ChainedTraceback':
        return cache['chained']
    if tc == 'SyntaxErrorReport':
        return cache['syntax']
    if tc == 'Truncated':
        t = cache['std'][4][0]
        return [(t[:len(t) // 2], None, None), (t.splitlines()[0], None, None), (t[:-5], None, None)]
    if tc == 'Concatenated':
        return [(cache['std'][0][0] + cache['std'][7][0], None, None), (cache['std'][1][0] * 3, None, None)]
    if tc == 'RandomPrintable':
        return [(''.join(rng.choice('abcXYZ 0123:;,.()[]{}<>&"\'/\\\n\t') for _ in range(rng.randint(1, 400))), None, None) for _ in range(4)]
    if tc == 'NonPrintable':
        return [(u'\x00\x01\x02 bell \x07 esc \x1b[31mred\x1b[0m \x7f zq9x', None, None), (u'퟿�​ zero width', None, None)]
    if tc == 'Markup':
        return [(u'<zq9x onzq9x="1">&amp;</zq9x><script>zq9x()</script>', None, None), (u'</pre></h2><zq9x>', None, None),
                (u'Traceback (most recent call last):\n  File "<zq9x>", line 1, in <zq9x>\nzq9xError: <zq9x a="b">', 'zq9xError', '<zq9x a="b">')]
    if tc == 'TemplateSyntax':
        return [(u'{tb_str} {#parsed_err}{exc_type}{/parsed_err} {>zq9x/} {~lb}', None, None), (u'{', None, None), (u'{{}} {% zq9x %} ${zq9x}', None, None),
                # template syntax on the LAST line (the line a heading / title is taken from), balanced and unbalanced
                (u'Traceback (most recent call last):\n  File "x.py", line 1\nKeyError: {#items}', 'KeyError', u'{#items}'),
                (u'first line\n{?x}', None, None), (u'some output\n{/items} stray close', None, None),
                (u'a\nb\nValueError: {:else} {@eq key=x value=1}', 'ValueError', u'{:else} {@eq key=x value=1}'),
                (u'line\n{#a}{#b}{/a}{/b}\n', None, None)]
    if tc == 'Empty':
        return [('', None, None)]
    if tc == 'WhitespaceOnly':
        return [('   \n\t\n', None, None)]
    if tc == 'NoneValue':
        return [(None, None, None)]
    if tc == 'Bytes':
        return [(b'Traceback (most recent call last):\n  File "x.py", line 1, in <module>\nValueError: bytes tb\n', None, None)]
    if tc == 'BytesInvalidUtf8':
        return [(b'\xff\xfe broken \x80 bytes', None, None)]
    raise ValueError(tc)


def files_for(fc, rng):
    if fc == 'None':
        return None
    if fc == 'Empty':
        return []
    if fc == 'Short':
        return ['/srv/app/main.py', '/srv/app/views.py']
    if fc == 'Long':
        return ['/srv/app/pkg%d/module_%d.py' % (i % 7, i) for i in range(300)]
    if fc == 'Markup':
        return ['/srv/app/<zq9x onzq9x="1">.py', '/srv/"quoted"&amp;.py', '/srv/{tmpl}{#x}.py',
                # names are shown as they are - also when they are not in normal form as paths
                '<a href="http://example.com/x.py">x</a>', '/srv//double/./dot/../up.py', './relative/', 'C:\\win\\path.py']
    if fc == 'SiteFiles':
        import os as _os
        import ast as _ast
        import werkzeug as _wz
        import clastic as _cl
        return ['/srv/app/main.py', _os.__file__, _ast.__file__, _wz.__file__, _cl.__file__,
                _os.path.join(_os.path.dirname(_cl.__file__), 'route.py')]
    if fc == 'NonAscii':
        return [u'/srv/caf\xe9/☃.py', u'/srv/日本/x.py']
    raise ValueError(fc)


class HP(html.parser.HTMLParser):
    def __init__(self):
        html.parser.HTMLParser.__init__(self, convert_charrefs=True)
        self.text = []
        self.names = set()
        self.heads = []          # text inside <title> / <h1> / <h2> (where the page NAMES the error)
        self._in_head = 0

    def handle_starttag(self, tag, attrs):
        self.names.add(tag)
        for k, _v in attrs:
            self.names.add(k)
        if tag in ('title', 'h1', 'h2'):
            self._in_head += 1

    def handle_endtag(self, tag):
        if tag in ('title', 'h1', 'h2') and self._in_head:
            self._in_head -= 1

    def handle_data(self, data):
        self.text.append(data)
        if self._in_head:
            self.heads.append(data)

    def handle_comment(self, data):
        if MARK in data:
            self.names.add('comment:' + MARK)


def norm_ws(s):
    return ' '.join(s.split())


def observe(tc, fc, text, exc_type, exc_msg, files):
    from clastic import flaw
    from werkzeug.test import Client
    from werkzeug.wrappers import BaseResponse
    o = {'tc': tc, 'fc': fc, 'constructs': True, 'status': 0, 'containsText': False, 'containsFiles': False, 'namesType': False,
         'namesMsg': False, 'alienMarkup': False}
    try:
        app = flaw.create_app(text, list(files) if files is not None else None)
    except Exception as e:  # noqa
        o['constructs'] = False
        o['_err'] = repr(e)
        return o
    statuses = []
    body = ''
    cl = Client(app, BaseResponse)
    for method, path in (('GET', '/'), ('GET', '/some/deep/path/'), ('POST', '/x'), ('GET', '/clastic_assets'), ('HEAD', '/'),
                         # paths under the asset mount that name no asset (missing, escaping the asset directory): the
                         # failsafe page answers them like every other path
                         ('GET', '/clastic_assets/no-such-asset.css'), ('GET', '/clastic_assets/../x'),
                         ('DELETE', '/clastic_assets/../../etc/passwd'), ('GET', '/clastic_assets/sub/../../flaw.py')):
        try:
            resp = cl.open(path=path, method=method, follow_redirects=False)
            statuses.append(resp.status_code)
            if method == 'GET' and path == '/':
                # decoded the way a client does it: with the charset the response declares (ISO-8859-1 when it declares none)
                ctype_ = resp.headers.get('Content-Type', '')
                charset_ = ctype_.split('charset=')[1].split(';')[0].strip() if 'charset=' in ctype_ else 'latin-1'
                try:
                    body = resp.get_data().decode(charset_)
                except (LookupError, UnicodeDecodeError):
                    body = resp.get_data().decode('latin-1')
            # what the client receives is what Content-Length announces: a page cut short has lost its end
            clen = resp.headers.get('Content-Length')
            if clen is not None and method != 'HEAD' and resp.status_code == 200 and int(clen) != len(resp.get_data()):
                statuses[-1] = -3
                o['_err'] = 'Content-Length %s but %d body bytes for %s %s' % (clen, len(resp.get_data()), method, path)
        except Exception as e:  # noqa
            statuses.append(-1)
            o['_err'] = repr(e)
    try:
        asset = cl.get('/clastic_assets/common.css')
        if asset.status_code != 200 or not asset.get_data():
            statuses.append(asset.status_code if asset.status_code != 200 else -2)
    except Exception as e:  # noqa
        statuses.append(-1)
    ok_status = all(s == 200 or (s in (301, 302, 308) and i == 3) for i, s in enumerate(statuses))
    o['status'] = 200 if ok_status else ([s for s in statuses if s != 200] or [0])[0]
    p = HP()
    p.feed(body)
    alltext = norm_ws(''.join(p.text))
    if isinstance(text, str):
        o['containsText'] = norm_ws(text) in alltext
    if files:
        o['containsFiles'] = all(norm_ws(f) in alltext for f in files[:50])
    if exc_type:
        headtext = norm_ws(' '.join(p.heads))
        o['namesType'] = exc_type in headtext
        o['namesMsg'] = norm_ws(exc_msg) in headtext
    o['alienMarkup'] = any(MARK in n for n in p.names)
    return o


def check(run):
    quick = run.tier == 'quick'
    F = spec('Flaw.tla')
    run.rule = ('cases = (error-text class, file-list class) enumerated by TLC from the reloader-loop model x concrete texts (real '
                'tracebacks of 8 exception types x 3 depths, chained, SyntaxError report, truncated, concatenated, random, non-printable, '
                'markup, template syntax, empty, None, bytes); non-trivial = distinct (text, file list)')
    run.assumptions = ['whitespace is compared after normalisation (the page is HTML)', 'html.parser is the trusted projection',
                       'the reloader loop is model-checked only; its process management is not executed']
    r = tlc.run_tlc(F, cfgpath('Flaw_quick.cfg'))
    run.add_tlc('Flaw reloader loop + page requirements', r)
    run.exhaustive = r.complete
    if r.violated:
        run.tlc_violation('Flaw', r)
    e = tlc.run_tlc(F, cfgpath('Flaw_emit.cfg'), workers=1)
    run.add_tlc('Flaw emission (text class x file class)', e)
    cases = {}
    for x in e.emits:
        cases[(x['tc'], x['fc'])] = x
    rng = random.Random(run.seed + 20)
    cache = {}
    recs = []
    tid = 0
    for (tc, fc), x in sorted(cases.items()):
        for text, et, em in texts_for(tc, rng, cache):
            files = files_for(fc, rng)
            o = observe(tc, fc, text, et, em, files)
            tid += 1
            recs.append({'tid': tid, 'o': {k: v for k, v in o.items() if not k.startswith('_')}, '_text': repr(text)[:300],
                         '_err': o.get('_err')})
    acc, rej = tracecheck.validate(run, 'Flaw_Trace', spec('Flaw_Trace.tla'), cfgpath('Flaw_Trace.cfg'), None,
                                   [{k: v for k, v in r_.items() if not k.startswith('_')} for r_ in recs])
    run.traces += len(acc)
    run.evaluations += len(recs)
    run.notes['records'] = {'total': len(recs), 'accepted': len(acc), 'rejected': len(rej), 'cases': len(cases)}
    for r_ in recs:
        if r_['tid'] in acc:
            run.nontrivial.add('%s|%s|%s' % (r_['o']['tc'], r_['o']['fc'], r_['_text']))
    run.sample(recs[len(recs) // 2])
    for r_ in recs:
        if r_['tid'] in rej:
            o = r_['o']
            if not o['constructs']:
                sig = 'create-app-raised:%s:%s' % (o['tc'], o['fc'])
            elif o['status'] != 200:
                sig = 'status-%s:%s:%s' % (o['status'], o['tc'], o['fc'])
            elif o['alienMarkup']:
                sig = 'markup-injected:%s:%s' % (o['tc'], o['fc'])
            elif not o['containsText'] and o['tc'] not in ('NoneValue', 'Bytes', 'BytesInvalidUtf8'):
                sig = 'text-missing:%s' % o['tc']
            elif not o['containsFiles'] and o['fc'] not in ('None', 'Empty'):
                sig = 'files-missing:%s' % o['fc']
            else:
                sig = 'type-or-message-not-named:%s' % o['tc']
            run.violation(sig, 'flaw page for text %s files %s: %r (%s)' % (r_['_text'], o['fc'], o, r_['_err']),
                          {'leg': 'L2', 'record': r_})


def replay(run, path):
    with open(path) as f:
        rp = json.load(f)
    print(json.dumps(rp['case']['record'], indent=1)[:3000])
    print('re-run `bin/check C20 quick` to re-evaluate')
    return 1
