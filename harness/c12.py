# -*- coding: utf-8 -*-
"""C12 - Concurrent requests on one Application do not interfere.

L1  TLC on Threads.tla (PlusCal): NonInterference and UniqueIds over ALL interleavings of 3-4 request
    threads with Hazard = "none"; with each of the three deliberately broken variants TLC must find a
    counterexample (sensitivity of the invariants, reported in the evidence).
L3  real threads against ONE real Application under a deterministic line-granular scheduler
    (sys.settrace line events inside clastic/* and the sinter-generated chain code are the switch points):
      (a) EVERY single-preemption schedule of ordered scenario pairs,
      (b) seeded random multi-preemption schedules of 3-4 threads,
      (c) free-running stress on all cores with a 1 microsecond switch interval.
    Each execution is recorded (what the providing middleware and the endpoint saw, projected to the
    request the value belongs to; the request id; the response projected against the served-alone
    baseline) and validated by TLC against Threads_Trace.tla.
"""
import json
import random
import sys
import threading

import common
import sched
import tlc
import tracecheck
from common import spec, cfgpath

REQS = {'a': ('GET', '/item/alpha', 't=ta'), 'b': ('GET', '/item/beta', 't=tb'), 'c': ('GET', '/nb/gamma', 't=tg'),
        'boom1': ('GET', '/boom/x1', 't=t1'), 'boom2': ('GET', '/boom/x2', 't=t2'),
        'm1': ('GET', '/multi', 't=tm1'), 'm2': ('GET', '/multi/', 't=tm2'),       # empty tails of a multi-segment binding
        'nf': ('GET', '/nowhere', 't=tn'), 'na': ('POST', '/item/zeta', 't=tz'), 'redir': ('GET', '/branch', 't=tr'),
        'redir2': ('GET', '/branch', 't=tr2&page=2'),       # the same path as redir, another query: another Location
        # two method-restricted routes on one path: a request neither admits (405), and one for each of them
        'dna': ('DELETE', '/dual/delta', 't=td'), 'dget': ('GET', '/dual/eps', 't=te'), 'dpost': ('POST', '/dual/phi', 't=tp'),
        # two 404s that negotiate different representations
        'nfh': ('GET', '/nowhere/h', 't=th', 'text/html'), 'nfj': ('GET', '/nowhere/j', 't=tj', 'application/json')}
NAME_OWNER = {'multi-tm1': 'm1', 'multi-tm2': 'm2', 'alpha': 'a', 'beta': 'b', 'gamma': 'c', 'x1': 'boom1', 'x2': 'boom2', 'zeta': 'na', 'delta': 'dna', 'eps': 'dget',
              'phi': 'dpost'}
TOKEN_OWNER = {'tm1': 'm1', 'tm2': 'm2', 'ta': 'a', 'tb': 'b', 'tg': 'c', 't1': 'boom1', 't2': 'boom2', 'tn': 'nf', 'tz': 'na', 'tr': 'redir', 'tr2': 'redir2', 'td': 'dna',
               'te': 'dget', 'tp': 'dpost', 'th': 'nfh', 'tj': 'nfj'}
FIXED = ('nf', 'na', 'redir', 'redir2', 'dna', 'nfh', 'nfj')
FAILS = ('boom1', 'boom2')
# the spec (Threads.tla) names plain requests a/b; 'c' (non-breaking fall-through) behaves like them


class World(object):
    def __init__(self):
        self.tl = threading.local()
        self.events = []

    def log(self, ev):
        ev['p'] = getattr(self.tl, 'p', 0)
        self.events.append(ev)


def build(W):
    from clastic import Application, GET, Response
    from clastic.errors import NotFound
    from clastic.middleware import Middleware

    class ProvMw(Middleware):
        provides = ('token',)

        def request(self, next, request):
            tok = request.args.get('t')
            W.log({'a': 'mw', 'token': ['token', TOKEN_OWNER.get(tok, 'ALIEN')]})
            return next(token=tok)

    def ep_item(request, name, token, t):
        W.log({'a': 'endpoint', 'params': ['params', NAME_OWNER.get(name, 'ALIEN')],
               'token': ['token', TOKEN_OWNER.get(token, 'ALIEN')], 'rid': getattr(request, 'request_id', -1), 'guid': getattr(request, 'request_guid', None)})
        return {'name': name, 'token': token, 'path': request.path, 't': t}      # t: from the built-in GetParamMiddleware

    def render_item(context, request, token):
        return Response(json.dumps(dict(context, rtoken=token, rpath=request.path)), mimetype='application/json')

    def ep_boom(request, name, token, t):
        W.log({'a': 'endpoint', 'params': ['params', NAME_OWNER.get(name, 'ALIEN')],
               'token': ['token', TOKEN_OWNER.get(token, 'ALIEN')], 'rid': getattr(request, 'request_id', -1), 'guid': getattr(request, 'request_guid', None)})
        raise ValueError('boom-%s-%s-%s' % (name, token, t))

    def ep_multi(request, token, t, tail):
        # the list a multi-segment binding hands over belongs to THIS request: editing it must not show anywhere else
        tail.append(token)
        W.log({'a': 'endpoint', 'params': ['params', NAME_OWNER.get('multi-' + '-'.join(tail), 'ALIEN')],
               'token': ['token', TOKEN_OWNER.get(token, 'ALIEN')], 'rid': getattr(request, 'request_id', -1),
               'guid': getattr(request, 'request_guid', None)})
        return {'name': 'multi-' + '-'.join(tail), 'token': token, 'path': request.path, 't': t}

    def ep_nb1(name):
        raise NotFound('soft %s' % name, is_breaking=False)
    from clastic import POST

    def ep_dual_post(request, name, token, t):
        W.log({'a': 'endpoint', 'params': ['params', NAME_OWNER.get(name, 'ALIEN')],
               'token': ['token', TOKEN_OWNER.get(token, 'ALIEN')], 'rid': getattr(request, 'request_id', -1), 'guid': getattr(request, 'request_guid', None)})
        return {'name': name, 'token': token, 'path': request.path, 't': t, 'via': 'post-route'}
    routes = [GET('/item/<name>', ep_item, render_item),
              GET('/dual/<name>', ep_item, render_item),
              POST('/dual/<name>', ep_dual_post, render_item),
              ('/boom/<name>', ep_boom),
              ('/multi/<tail*>', ep_multi, render_item),
              ('/nb/<name>', ep_nb1),
              ('/nb/<name>', ep_item, render_item),
              ('/branch/', lambda: Response('branch'))]
    from clastic.middleware.url import GetParamMiddleware
    return Application(routes, middlewares=[ProvMw(), GetParamMiddleware(['t'])])


def do_request(app, rname):
    from werkzeug.test import create_environ, run_wsgi_app
    method, path, qs = REQS[rname][:3]
    env = create_environ(path, method=method, query_string=qs)
    if len(REQS[rname]) > 3:
        env['HTTP_ACCEPT'] = REQS[rname][3]
    app_iter, status, headers = run_wsgi_app(app, env)
    body = b''.join(app_iter).decode('utf8', 'replace')
    h = dict(headers)
    return int(status.split()[0]), body, h.get('Location'), h.get('Content-Type')


def project_resp(rname, res, baseline):
    if isinstance(res, BaseException):
        return ['escaped', type(res).__name__]
    status, body, loc, ctype = res
    if rname in FIXED:
        return ['fixed', rname if (status, body, loc, ctype) == baseline[rname] else 'DIFFERS']
    if rname in FAILS:
        import re
        m = re.search(r'boom-(\w+)-(\w+)-(\w+)', body)
        owner = 'ALIEN'
        if m and NAME_OWNER.get(m.group(1)) == TOKEN_OWNER.get(m.group(2)) == TOKEN_OWNER.get(m.group(3)):
            owner = NAME_OWNER.get(m.group(1), 'ALIEN')
        return [str(status), ['error', owner]]
    try:
        d = json.loads(body)
    except ValueError:
        return [str(status), ['params', 'UNPARSEABLE'], ['token', 'UNPARSEABLE']]
    owners = set([NAME_OWNER.get(d.get('name')), TOKEN_OWNER.get(d.get('token')), TOKEN_OWNER.get(d.get('rtoken')),
                  TOKEN_OWNER.get(d.get('t'))])
    ok_path = d.get('path') == REQS[rname][1] and d.get('rpath') == REQS[rname][1] and \
        (d.get('via') == 'post-route') == (rname == 'dpost')
    if len(owners) == 1 and ok_path:
        o = owners.pop()
        return [str(status), ['params', o], ['token', o]]
    return [str(status), ['params', 'MIXED'], ['token', 'MIXED']]


def spec_name(r):
    return r     # request names are shared with Threads.tla (plain: a, b, c; failing: boom1/2; fixed: nf/na/redir)


def run_schedule(app, W, rnames, plan, first, baseline, repo):
    """controlled execution; returns the trace record (without tid).  `app` may be a list of applications living in the same
    process: thread i then talks to app[i % len(app)] (request identifiers are unique within the PROCESS)"""
    del W.events[:]
    S = sched.Scheduler(repo, plan)
    jobs = {}
    apps = app if isinstance(app, list) else [app]
    for i, r in enumerate(rnames, 1):
        def job(i=i, r=r):
            W.tl.p = i
            return do_request(apps[i % len(apps)], r)
        jobs[i] = job
    results = S.run(jobs, first)
    ev = [dict(e) for e in W.events]
    for i, r in enumerate(rnames, 1):
        ev.append({'p': i, 'a': 'respond', 'resp': project_resp(r, results[i], baseline)})
    return normalise(rnames, ev), S.total_points, S.count


def normalise(rnames, ev):
    out = []
    # request_guid is derived from request_id and has to be unique as well: two requests that share a guid are recorded with
    # the same identifier, which the trace specification (UniqueIds) rejects
    seen_guid = {}
    ev2 = []
    for e in ev:
        g = e.get('guid')
        if g is not None:
            if g in seen_guid and seen_guid[g] != e.get('rid'):
                e = dict(e, rid=seen_guid[g])
            seen_guid.setdefault(g, e.get('rid'))
        ev2.append(e)
    ev = ev2
    for e in ev:
        out.append({'p': e['p'], 'a': e['a'], 'params': e.get('params', ['-', '-']), 'token': e.get('token', ['-', '-']),
                    'rid': e.get('rid', -1), 'resp': e.get('resp', ['-'])})
    return {'reqs': list(rnames), 'ev': out}


def check(run):
    quick = run.tier == 'quick'
    T = spec('Threads.tla')
    run.rule = ('schedules: every single-preemption schedule (switch points = line events in clastic/* and generated chain code) of '
                'ordered scenario pairs, seeded random multi-preemption schedules of 3-4 threads, behaviours of Threads.tla generated '
                'by TLC and replayed at label granularity, free-running stress; '
                'non-trivial = schedule in which the preempted thread was actually interrupted mid-request')
    run.assumptions = ['interleavings inside C code (re, werkzeug internals, itertools.count.__next__) are atomic under the GIL',
                       'free-threaded builds are out of scope',
                       'TLC behaviours are replayed at label granularity: k-th label step of a process = k-th segment of its thread']
    for name, cfg in (('Threads (3 threads, all interleavings)', 'Threads_none.cfg'), ('Threads (4 threads)', 'Threads_4.cfg')):
        r = tlc.run_tlc(T, cfgpath(cfg), deadlock=False, timeout=1200)
        run.add_tlc(name, r)
        if r.violated:
            run.tlc_violation(name, r)
    sens = {}
    for h in ('paramsOnRoute', 'errorOnHandler', 'nonAtomicCounter'):
        r = tlc.run_tlc(T, cfgpath('Threads_%s.cfg' % h), deadlock=False, timeout=1200)
        sens[h] = r.violated
    run.notes['hazard_variants_refuted_by_tlc'] = sens
    run.exhaustive = True
    W = World()
    app = build(W)
    W.tl.p = 0
    # "the response it would get if it were served alone": each baseline comes from a FRESH application
    baseline = {}
    for r in REQS:
        Wb = World()
        Wb.tl.p = 0
        baseline[r] = do_request(build(Wb), r)
    repo = common.REPO
    traces = []
    tid = 0
    rng = random.Random(run.seed + 12)
    names = sorted(REQS)
    pairs = [(x, y) for x in names for y in names]
    if quick:
        must = [('nfh', 'nfj'), ('nfj', 'nfh'), ('dna', 'dpost'), ('dpost', 'dna'), ('a', 'b'), ('boom1', 'a'), ('c', 'redir'),
                ('boom1', 'boom2'), ('boom2', 'boom1'), ('redir', 'redir2'), ('redir2', 'redir'), ('c', 'nf'), ('nf', 'c'),
                ('m1', 'm2'), ('m2', 'm1'), ('m1', 'm1')]
        pairs = must + rng.sample([p_ for p_ in pairs if p_ not in must], 8)
    npre = 0
    for x, y in pairs:
        # length of x alone under the scheduler
        rec, total, counts = run_schedule(app, W, [x], lambda t, n, live: t, 1, baseline, repo)
        nx = counts[1]
        ks = range(1, nx + 1)
        for k in ks:
            def plan(t, n, live, k=k):
                if t == 1 and n == k and 2 in live:
                    return 2
                if n == -1:
                    return live[0]
                return t
            rec, total, counts = run_schedule(app, W, [x, y], plan, 1, baseline, repo)
            tid += 1
            rec['tid'] = tid
            rec['_kind'] = 'single-preemption %s|%s@%d' % (x, y, k)
            traces.append(rec)
            npre += 1
    # cold applications: the FIRST requests an application ever serves, preempted at every line
    ncold = 0
    for x, y in [('a', 'nf'), ('nf', 'a'), ('a', 'na'), ('c', 'nf')] if quick else [(x_, y_) for x_ in ('a', 'c', 'nf', 'na', 'boom1') for y_ in ('a', 'nf', 'na', 'dna')]:
        rec, total, counts = run_schedule(build(W), W, [x], lambda t, n, live: t, 1, baseline, repo)
        for k in range(1, counts[1] + 1):
            def plan(t, n, live, k=k):
                if t == 1 and n == k and 2 in live:
                    return 2
                if n == -1:
                    return live[0]
                return t
            rec, total, counts2 = run_schedule(build(W), W, [x, y], plan, 1, baseline, repo)
            tid += 1
            rec['tid'] = tid
            rec['_kind'] = 'single-preemption on a fresh application %s|%s@%d' % (x, y, k)
            traces.append(rec)
            ncold += 1
    app2 = build(W)          # a second application in the same process
    nmulti = 0
    for _ in range(150 if quick else 4000):
        n = rng.choice([3, 4])
        rn = [rng.choice(names) for _k in range(n)]
        seed = rng.random()
        prng = random.Random(seed)

        def plan(t, cnt, live, prng=prng):
            if cnt == -1:
                return prng.choice(live)
            if prng.random() < 0.08 and len(live) > 1:
                return prng.choice([z for z in live if z != t])
            return t
        # (two applications that have served the same number of requests so far: identifiers are unique per process, not per application)
        rec, total, counts = run_schedule([build(W), build(W)] if _ % 2 else app, W, rn, plan, 1, baseline, repo)
        tid += 1
        rec['tid'] = tid
        rec['_kind'] = 'random multi-preemption' + (' (two applications)' if _ % 2 else '')
        traces.append(rec)
        nmulti += 1
    # behaviours of Threads.tla generated by TLC, replayed at label granularity (many switches between 3 threads)
    import c12_tlcsched
    tid, ntlc, ntlc_switches = c12_tlcsched.leg(run, quick, app, W, baseline, repo, traces, tid)
    # free-running stress
    old_si = sys.getswitchinterval()
    sys.setswitchinterval(1e-6)
    nstress = 0
    try:
        for _round in range(3 if quick else 30):
            nthreads = 8
            per = 40
            logs = {}
            resps = {}
            del W.events[:]
            plan_r = dict((i, [rng.choice(names) for _k in range(per)]) for i in range(1, nthreads + 1))

            def worker(i):
                out = []
                for j, r in enumerate(plan_r[i]):
                    W.tl.p = i * 1000 + j
                    try:
                        out.append(do_request(app, r))
                    except BaseException as e:  # noqa
                        out.append(e)
                resps[i] = out
            ths = [threading.Thread(target=worker, args=(i,)) for i in range(1, nthreads + 1)]
            for th in ths:
                th.start()
            for th in ths:
                th.join()
            # one trace per round: every (thread, request) is its own "process" p; only per-process order is used
            allev = list(W.events)
            procs = sorted(set(e['p'] for e in allev) | set(i * 1000 + j for i in plan_r for j in range(per)))
            # TLC's stage function covers p in 1..8: split into chunks of 8 processes, ids checked per chunk and globally here
            rids = [e['rid'] for e in allev if e['a'] == 'endpoint']
            if len(rids) != len(set(rids)):
                run.violation('duplicate-request-id', 'free-running stress produced duplicate request ids', {'leg': 'L3', 'rids': sorted(rids)[:50]})
            chunk = []
            for pid in procs:
                chunk.append(pid)
                if len(chunk) == 8:
                    tid += 1
                    traces.append(_stress_trace(tid, chunk, allev, plan_r, resps, baseline))
                    nstress += 1
                    chunk = []
    finally:
        sys.setswitchinterval(old_si)
    run.notes['schedules'] = {'single_preemption': npre, 'random_multi': nmulti, 'tlc_behaviours_replayed': ntlc, 'fresh_application_schedules': ncold,
                              'switches_in_replayed_behaviours': ntlc_switches, 'stress_chunks': nstress, 'ordered_pairs': len(pairs)}
    acc, rej = tracecheck.validate(run, 'Threads_Trace', spec('Threads_Trace.tla'), cfgpath('Threads_Trace.cfg'),
                                   cfgpath('Threads_Trace_diag.cfg'),
                                   [{k: v for k, v in t.items() if not k.startswith('_')} for t in traces])
    run.traces += len(acc)
    run.evaluations += len(traces)
    for t in traces:
        if t['tid'] in acc:
            run.nontrivial.add('%s:%d' % (t['_kind'].split(' ')[0], t['tid']))
    if traces:
        run.sample({'kind': traces[len(traces) // 3]['_kind'], 'reqs': traces[len(traces) // 3]['reqs'],
                    'events': traces[len(traces) // 3]['ev']})
    by = dict((t['tid'], t) for t in traces)
    for t, pref in sorted(rej.items()):
        tr = by[t]
        e = tr['ev'][pref] if 0 <= pref < len(tr['ev']) else None
        sig = 'interference:%s' % (e['a'] if e else 'incomplete')
        if e and e['a'] == 'respond' and e['resp'][0] == 'escaped':
            sig = 'exception-escaped'
        run.violation(sig, '%s: event %s %r is not what the thread sees when served alone (requests %r)'
                      % (tr['_kind'], pref, e, tr['reqs']), {'leg': 'L3', 'trace': tr, 'rejected_at': pref})


def _stress_trace(tid, chunk, allev, plan_r, resps, baseline):
    reqs = []
    ev = []
    for idx, pid in enumerate(chunk, 1):
        i, j = pid // 1000, pid % 1000
        r = plan_r[i][j]
        reqs.append(r)
        for e in allev:
            if e['p'] == pid:
                d = dict(e)
                d['p'] = idx
                ev.append(d)
        ev.append({'p': idx, 'a': 'respond', 'resp': project_resp(r, resps[i][j], baseline)})
    rec = normalise(reqs, ev)
    rec['tid'] = tid
    rec['_kind'] = 'stress free-running'
    return rec


def replay(run, path):
    with open(path) as f:
        rp = json.load(f)
    print(json.dumps(rp['case']['trace'], indent=1)[:4000])
    print('schedules are deterministic per seed: re-run `bin/check C12 quick`')
    return 1
