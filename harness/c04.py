# -*- coding: utf-8 -*-
"""C04 - Name conflicts and reserved-name misuse are rejected at construction.

Inject.tla with reserved names admitted as URL bindings / resources / provides and the two
malformations (middleware function not starting with next, next in endpoint/render) enabled.
The spec's Allowed set pins the outcome: conflict / reserved / next-in-endpoint / unresolved
(incl. context outside the render phase) => NameError; several defect classes => any rejection.
"""
import json

import inject_check as ic


def check(run):
    quick = run.tier == 'quick'
    run.rule = ('configurations of Inject.tla with reserved names as sources and malformations; non-trivial = the '
                'configuration contains a conflict, a reserved-name misuse or a malformation (must be rejected)')
    run.assumptions = ['resource name _ignored (private binding of the catch-all) is outside the alphabets',
                       'when several defect classes coincide only "rejected" is required']
    ic.run_l1(run, [('Inject C04 exhaustive (all source pairs)', 'Inject_c04.cfg' if quick else 'Inject_c04_thorough.cfg')], [])
    recs = ic.emit(run, 'Inject C04 emission (exhaustive)', 'Inject_c04_emit_small.cfg', 0, 0, 4000 if quick else 40000, bfs=True)
    recs2 = ic.emit(run, 'Inject C04 emission (simulate)', 'Inject_c04_emit.cfg', 300 if quick else 6000, 16,
                    2500 if quick else 40000, seed_off=3)
    recs3 = ic.emit(run, 'Inject C04 emission (exhaustive, a LATER function of a middleware is malformed)',
                    'Inject_c04_emit_later.cfg', 0, 0, 300 if quick else 5000, seed_off=4, bfs=True)
    opts = {'mode': 'C01', 'kwonly': True, 'posonly': False, 'carriers': True}
    res = ic.replay_records(run, recs + recs2 + recs3, opts, [0, 1], run.seed, 'c04')

    def nontrivial(rec):
        return rec['conflict'] or rec['bad']['k'] != 'none'
    cov = ic.absorb(run, res, nontrivial)
    run.notes['replay_coverage'] = cov
    shown = 0
    for r in recs + recs2:
        if r['conflict'] and shown < 3:
            shown += 1
            run.sample({k: r[k] for k in ('n', 'nApp', 'P', 'V', 'url', 'res', 'rres', 'bad', 'allowed')})


def replay(run, path):
    import inject_worker
    with open(path) as f:
        rp = json.load(f)
    c = rp['case']
    viol, info = inject_worker.check_one(c['rec'], c['seed'], c['opts'])
    print(info)
    for sig, what, _d in viol:
        print('still violates:', sig, '-', what)
    return 1 if viol else 0
