# -*- coding: utf-8 -*-
"""C04 - Name conflicts and reserved-name misuse are rejected at construction.

Inject.tla with reserved names admitted as URL bindings / resources / provides and the two
malformations (middleware function not starting with next, next in endpoint/render) enabled.
The spec's Allowed set pins the outcome: conflict / reserved / next-in-endpoint / unresolved
(incl. context outside the render phase) => NameError; several defect classes => any rejection.
"""
import json

import inject_check as ic


def check(run):
    quick = run.tier == 'quick'
    run.rule = ('configurations of Inject.tla with reserved names as sources and malformations; non-trivial = the '
                'configuration contains a conflict, a reserved-name misuse or a malformation (must be rejected)')
    run.assumptions = ['resource name _ignored (private binding of the catch-all) is outside the alphabets',
                       'when several defect classes coincide only "rejected" is required']
    ic.run_l1(run, [('Inject C04 exhaustive (all source pairs)', 'Inject_c04.cfg' if quick else 'Inject_c04_thorough.cfg')], [])
    recs = ic.emit(run, 'Inject C04 emission (exhaustive)', 'Inject_c04_emit_small.cfg', 0, 0, 4000 if quick else 40000, bfs=True)
    recs2 = ic.emit(run, 'Inject C04 emission (simulate)', 'Inject_c04_emit.cfg', 300 if quick else 6000, 16,
                    2500 if quick else 40000, seed_off=3)
    recs3 = ic.emit(run, 'Inject C04 emission (exhaustive, a LATER function of a middleware is malformed)',
                    'Inject_c04_emit_later.cfg', 0, 0, 300 if quick else 5000, seed_off=4, bfs=True)
    opts = {'mode': 'C01', 'kwonly': True, 'posonly': False, 'carriers': True}
    res = ic.replay_records(run, recs + recs2 + recs3, opts, [0, 1], run.seed, 'c04')

    def nontrivial(rec):
        return rec['conflict'] or rec['bad']['k'] != 'none'
    cov = ic.absorb(run, res, nontrivial)
    run.notes['replay_coverage'] = cov
    leg_error_renderer_names(run)
    leg_prefix_bindings(run)
    shown = 0
    for r in recs + recs2:
        if r['conflict'] and shown < 3:
            shown += 1
            run.sample({k: r[k] for k in ('n', 'nApp', 'P', 'V', 'url', 'res', 'rres', 'bad', 'allowed')})


def leg_error_renderer_names(run):
    """Inject.tla ErrAvail: an error renderer may take request built-ins, application resources and `_error`; anything else
    (`context`, `next`, an unknown name) is rejected with NameError when the handler is installed - for ErrorHandler
    subclasses, for set_error_handler() and for Route(render_error=...)"""
    import common
    import tlc
    from common import spec, cfgpath
    e = tlc.run_tlc(spec('Inject.tla'), cfgpath('Inject_c04_emit_err.cfg'), workers=1, timeout=600)
    run.add_tlc('Inject C04 emission (names an error renderer may take)', e)
    common.fresh_repo_import()
    from clastic import Application, Route, Response
    from clastic.errors import ErrorHandler
    seen = set()
    for rec in e.emits:
        key = json.dumps(rec, sort_keys=True)
        if key in seen:
            continue
        seen.add(key)
        res = dict((nm, object()) for nm in rec['res'])
        for nm, ok in sorted(rec['names'].items()):
            env = {}
            exec('def render_error(self, request, _error, %s):\n    return _error\n' % nm, env)
            exec('def render_error_fn(request, _error, %s):\n    return _error\n' % nm, env)
            H = type('H', (ErrorHandler,), {'render_error': env['render_error']})
            for how in ('constructor', 'set_error_handler', 'route'):
                run.evaluations += 1
                try:
                    if how == 'constructor':
                        Application([('/', lambda: Response('x'))], resources=res, error_handler=H())
                    elif how == 'set_error_handler':
                        Application([('/', lambda: Response('x'))], resources=res).set_error_handler(H())
                    else:
                        # (a route-level error renderer is checked against the ROUTE's own resources, when the Route is created)
                        Application([Route('/', lambda: Response('x'), render_error=env['render_error_fn'], resources=res)])
                    outcome = 'ok'
                except NameError:
                    outcome = 'NameError'
                except Exception as ex:  # noqa
                    outcome = type(ex).__name__
                want = 'ok' if ok else 'NameError'
                if outcome != want:
                    run.violation('error-renderer-name:%s:%s->%s:%s' % (nm if nm in ('context', 'next') else 'other', want, outcome, how),
                                  'render_error taking %r with application resources %r (%s): %s, the spec says %s'
                                  % (nm, sorted(res), how, outcome, want),
                                  {'leg': 'L2-err', 'rec': rec, 'name': nm, 'how': how, 'outcome': outcome})
                else:
                    run.traces += 1
                    run.nontrivial.add('errname:%s:%s:%s' % (key, nm, how))


def leg_prefix_bindings(run):
    """Inject.tla Conflict (Offers(R, nm) > 1 => NameError) for an EMBEDDED application: the URL bindings of a bound route are
    those of the embedding prefix plus the route's own, so a binding in the prefix conflicts with a resource, a provide or a
    binding of the embedded application just as a binding of the route itself would - whatever else the parent defines."""
    import common
    common.fresh_repo_import()
    from clastic import Application, Route, Response
    from clastic.middleware import Middleware

    class Prov(Middleware):
        provides = ('u1',)

        def request(self, next):
            return next(u1='provided')

    def inner_of(kind):
        if kind == 'app-resource':
            return Application([('/x', lambda: Response('x'))], resources={'u1': 1})
        if kind == 'route-resource':
            return Application([Route('/x', lambda: Response('x'), resources={'u1': 1})])
        if kind == 'app-middleware':
            return Application([('/x', lambda: Response('x'))], middlewares=[Prov()])
        if kind == 'route-middleware':
            return Application([Route('/x', lambda: Response('x'), middlewares=[Prov()])])
        if kind == 'route-binding':
            return Application([('/x/<u1>', lambda u1: Response(u1))])
        return Application([('/x', lambda: Response('x'))])
    parents = {'bare': {}, 'with-resource': {'resources': {'other': 1}}, 'with-middleware': {'middlewares': [type('Plain', (Middleware,), {})()]}}
    for kind in ('app-resource', 'route-resource', 'app-middleware', 'route-middleware', 'route-binding', 'none'):
        for prefix, clash in (('/<u1>', kind != 'none'), ('/<u2>', False), ('/lit', False)):
            for pname, pkw in sorted(parents.items()):
                for twice in (False, True):
                    run.evaluations += 1
                    try:
                        inner = inner_of(kind)
                        if twice:
                            Application([('/first', inner)])           # the application was already embedded once, elsewhere
                        Application([(prefix, inner)], **pkw)
                        outcome = 'ok'
                    except NameError:
                        outcome = 'NameError'
                    except Exception as ex:  # noqa
                        outcome = type(ex).__name__
                    want = 'NameError' if clash else 'ok'
                    if clash and kind == 'route-binding':
                        want = 'InvalidPattern'      # two bindings of one name in ONE pattern: the pattern itself is invalid (C05)
                    if outcome != want:
                        run.violation('prefix-binding-conflict:%s:%s->%s' % (kind, want, outcome),
                                      'embedding under %r an application whose %s offers u1 (parent %s%s): %s, the spec says %s'
                                      % (prefix, kind, pname, ', embedded before' if twice else '', outcome, want),
                                      {'leg': 'L2-prefix', 'kind': kind, 'prefix': prefix, 'parent': pname, 'twice': twice,
                                       'outcome': outcome})
                    else:
                        run.traces += 1
                        run.nontrivial.add('prefix:%s:%s:%s:%s' % (kind, prefix, pname, twice))


def replay(run, path):
    import inject_worker
    with open(path) as f:
        rp = json.load(f)
    c = rp['case']
    if c.get('leg') == 'L2-prefix':
        print('re-run `bin/check C04 quick` (prefix bindings leg): %r' % ({k: c[k] for k in ('kind', 'prefix', 'parent', 'twice', 'outcome')},))
        return 1
    if c.get('leg') == 'L2-err':
        print('re-run `bin/check C04 quick` (error renderer names leg): %r' % ({k: c[k] for k in ('name', 'how', 'outcome')},))
        return 1
    viol, info = inject_worker.check_one(c['rec'], c['seed'], c['opts'])
    print(info)
    for sig, what, _d in viol:
        print('still violates:', sig, '-', what)
    return 1 if viol else 0
