# -*- coding: utf-8 -*-
"""C18 - The meta application never reveals secrets and always renders.

L1  TLC on Meta.tla: page model per host configuration (NoSecretVisible, OthersVisible, Always200) over all
    configurations within the bound; TLC enumerates the configurations for the conformance leg.
L2  each configuration is built as a real host Application (resources with unique markers in their values,
    SignedCookieMiddleware with a marked key, a middleware whose repr raises, routes with ordinary and
    introspection-hostile endpoints, static routes, sub-applications) with the MetaApplication mounted at
    depth 0-2; the HTML page and the JSON view are fetched and PROJECTED: each marker is searched in the
    whole body (raw, HTML-unescaped, JSON-decoded, backslash-unescaped); each resource is classified as
    redacted / visible / absent.  TLC judges every record (Meta_Trace.tla).
"""
import html
import json
import operator
import os
import random

import tlc
import tracecheck
from common import spec, cfgpath

NAMES = {'prefix': 'secret_token', 'infix': 'my_secret_key', 'suffix': 'db_secret', 'exact': 'secret', 'none': 'api_token',
         'upper': 'SECRET_UPPER', 'similar': 'secre_t'}
NAMES_LONG = dict(NAMES, prefix='secret_' + 'configuration_value_' * 2 + 'x', infix='the_quite_long_name_of_a_secret_configuration_value',
                  suffix='payment_gateway_webhook_signing_secret')


def names_of(rec):
    """short names, or names longer than anything a display would truncate to ('secret' beyond the 30th character)"""
    return NAMES_LONG if rec.get('_variant', 0) % 4 == 1 else NAMES


KEYMARK = 'KEYMARK9d41'
MIDMARK = 'MIDMARK5b1e'      # value of a secret-named resource of an INTERMEDIATE application (meta mounted two levels deep)


class ObjWithRepr(object):
    def __init__(self, m):
        self.m = m

    def __repr__(self):
        return '<Obj holding %s>' % self.m


def value_of(vk, marker):
    if vk == 'str':
        return marker
    if vk == 'bytes':
        return marker.encode('ascii')
    if vk == 'num':
        return int(''.join(str(ord(c) % 10) for c in marker[:12]))      # digits derived from the marker
    if vk == 'nested':
        return {'inner': [marker, {'deep': marker}]}
    if vk == 'obj':
        return ObjWithRepr(marker)
    if vk == 'long':
        return marker + ('x' * 200) + marker + 'TAIL'
    raise ValueError(vk)


def marker_text(vk, marker):
    """the text whose presence means the value was disclosed"""
    if vk == 'num':
        return str(value_of('num', marker))
    return marker


class FalsyObj(object):
    """an empty container-like object (an unset key ring): falsy, but its repr quotes the secret"""
    def __init__(self, m):
        self.m = m

    def __len__(self):
        return 0

    def __repr__(self):
        return '<KeyRing (empty) master=%s>' % self.m


class RaisingRepr(object):
    """a lazy handle / sealed vault: even asking for its repr fails (and the failure text quotes the secret)"""
    def __init__(self, m):
        self.m = m

    def __repr__(self):
        raise RuntimeError('cannot show %s' % self.m)


def build(rec, markers):
    from clastic import Application, Response, render_basic
    from clastic.meta import MetaApplication
    from clastic.middleware import Middleware
    from clastic.middleware.cookie import SignedCookieMiddleware
    from clastic.static import StaticFileRoute

    class AppSpecificError(Exception):
        pass
    broken_exc = [RuntimeError, ZeroDivisionError, AssertionError, AppSpecificError, KeyError, OSError][rec.get('_variant', 0) % 6]

    class BrokenReprMw(Middleware):
        def __repr__(self):
            if rec.get('_variant', 0) % 3 == 2:
                raise broken_exc()        # an exception WITHOUT arguments (a bare `raise NotImplementedError`, a failed assert)
            raise broken_exc('repr of this middleware is broken')

    class PlainMw(Middleware):
        # `provides` may be any collection of names - here an (empty) frozenset
        provides = frozenset() if rec.get('_variant', 0) % 2 else ()

        def request(self, next):
            return next()

    class CallableEp(object):
        def __call__(self, request):
            return Response('callable object')

    class Methods(object):
        def ep(self):
            return Response('method')
    res = {}
    for r in rec['resources']:
        res[names_of(rec)[r['nc']]] = value_of(r['vk'], markers[r['nc']])
        if r['vk'] == 'obj' and r['nc'] in ('prefix', 'infix', 'suffix', 'exact') and rec.get('_variant', 0) % 2:
            res[names_of(rec)[r['nc']]] = RaisingRepr(markers[r['nc']])     # a secret is never repr()-ed, so this is harmless
        elif r['vk'] == 'nested' and r['nc'] not in ('prefix', 'infix', 'suffix', 'exact') and rec.get('_variant', 0) % 2 == 0:
            res[names_of(rec)[r['nc']]] = (markers[r['nc']], 5432)       # a tuple-valued resource (host, port)
        elif r['vk'] == 'obj' and rec.get('_variant', 0) % 4 == 2:
            res[names_of(rec)[r['nc']]] = FalsyObj(markers[r['nc']])       # redaction goes by the NAME; the value may be falsy
        elif r['vk'] == 'str' and r['nc'] in ('prefix', 'infix', 'suffix', 'exact') and rec.get('_variant', 0) % 5 == 3:
            res[names_of(rec)[r['nc']]] = ''                                # an unset secret is still listed as redacted
    mws = []
    if 'cookie' in rec['mws']:
        ck_cls = SignedCookieMiddleware
        if rec.get('_variant', 0) % 3 == 1:
            # an application's own flavour of the cookie middleware (a subclass that overrides nothing that matters here)
            ck_cls = type('SessionCookieMiddleware', (SignedCookieMiddleware,), {'flavour': 'session'})
        key = (KEYMARK * 2).encode('ascii') if rec.get('_variant', 0) % 2 else (KEYMARK * 2)
        mws.append(ck_cls(secret_key=key))
    if 'brokenrepr' in rec['mws']:
        mws.append(BrokenReprMw())
    if 'plain' in rec['mws']:
        mws.append(PlainMw())
    if 'ctxprocsecret' in rec['mws']:
        # a host-level context processor that copies a secret-named resource into every render context
        from clastic.middleware.context import ContextProcessor
        secret_names = [names_of(rec)[r['nc']] for r in rec['resources'] if r['nc'] in ('prefix', 'infix', 'suffix', 'exact')]
        if secret_names:
            mws.append(ContextProcessor(required=secret_names[:1]))
    routes = []
    rk = rec['routes']
    if 'func' in rk:
        def func_ep(request):
            "a documented endpoint <b>with markup</b> and a link http://example.com/x?y=1&z=2"
            return Response('func')
        routes.append(('/func', func_ep))
    if 'method' in rk:
        routes.append(('/method', Methods().ep))
    if 'callable_obj' in rk:
        routes.append(('/callable', CallableEp(), render_basic))
    if 'builtin' in rk:
        routes.append(('/builtin', sum, render_basic))
        res.setdefault('iterable', [1, 2])
        res.setdefault('start', 0)
    if 'lambda' in rk:
        routes.append(('/lambda/<x>', lambda x: Response(x)))
    if 'static' in rk:
        routes.append(StaticFileRoute('/file', os.path.abspath(__file__)))
    if 'sub' in rk:
        routes.append(('/sub', Application([('/inner', lambda: Response('inner'))], resources={'inner_secret': 'INNERMARK77'})))
    meta_entry = ('/_meta', MetaApplication())
    depth = rec['depth']
    mid_kw = {}
    if rec.get('_variant', 0) % 2 == 0:
        # the application BETWEEN the serving one and the meta application owns a secret and a context processor that puts
        # it into every render context below it
        from clastic.middleware.context import ContextProcessor as _CP
        mid_kw = {'resources': {'mid_secret_token': MIDMARK}, 'middlewares': [_CP(required=['mid_secret_token'])]}
    if depth == 0:
        app = Application(routes + [meta_entry], resources=res, middlewares=mws)
        prefix = '/_meta/'
    elif depth == 1:
        inner = Application([meta_entry], **mid_kw)
        app = Application(routes + [('/a', inner)], resources=res, middlewares=mws)
        prefix = '/a/_meta/'
    else:
        inner = Application([('/b/', Application([meta_entry]))], **mid_kw)
        app = Application(routes + [('/a', inner)], resources=res, middlewares=mws)
        prefix = '/a/b/_meta/'
    return app, prefix


def views(body, is_json):
    """every decoding of the body in which a marker could hide"""
    out = [body]
    out.append(html.unescape(body))
    try:
        out.append(body.encode('utf8').decode('unicode_escape', 'replace'))
    except Exception:  # noqa
        pass
    if is_json:
        try:
            d = json.loads(body)
            acc = []

            def walk(x):
                if isinstance(x, dict):
                    for k, v in x.items():
                        acc.append(str(k))
                        walk(v)
                elif isinstance(x, (list, tuple)):
                    for v in x:
                        walk(v)
                else:
                    acc.append(str(x))
            walk(d)
            out.append('\n'.join(acc))
        except ValueError:
            pass
    return out


def project(rec, markers, status, body, is_json):
    vs = views(body, is_json)
    res = []
    for r in rec['resources']:
        name = names_of(rec)[r['nc']]
        mt = marker_text(r['vk'], markers[r['nc']])
        leak = any(mt in v for v in vs)
        listed = any(name in v for v in vs)
        redacted = False
        if listed:
            for v in vs:
                i = v.find(name)
                while i != -1:
                    if '[REDACTED]' in v[i:i + 400]:
                        redacted = True
                    i = v.find(name, i + 1)
        how = 'absent'
        if listed and leak:
            how = 'visible'
        elif listed and redacted:
            how = 'redacted'
        elif listed:
            how = 'listed-without-value'
        res.append({'nc': r['nc'], 'how': how, 'leak': leak})
    keyleak = any(KEYMARK in v or MIDMARK in v for v in vs)
    inline_ok = True
    if 'brokenrepr' in rec['mws']:
        inline_ok = any('repr of this middleware is broken' in v for v in vs) or \
            (rec.get('_variant', 0) % 3 == 2 and any(n_ in v for v in vs for n_ in ('RuntimeError', 'ZeroDivisionError', 'AssertionError',
                                                                                       'AppSpecificError', 'KeyError', 'OSError')))
    return {'status': status, 'res': res, 'keyleak': keyleak, 'inline_ok': inline_ok}


def check(run):
    quick = run.tier == 'quick'
    M = spec('Meta.tla')
    run.rule = ('host configurations (resources: 7 name classes x 6 value kinds, <= 2-3 per host; middlewares; route kinds; mount depth '
                '0-2; HTML / JSON view) enumerated by TLC; non-trivial = configuration with at least one secret-named resource or the '
                'cookie middleware')
    run.assumptions = ["'secret' is matched case-sensitively as the property states", 'leak search = marker substring in the raw, '
                       'HTML-unescaped, backslash-unescaped and JSON-decoded body', 'numeric secrets are searched by their decimal digits']
    r = tlc.run_tlc(M, cfgpath('Meta_quick.cfg'), timeout=1200)
    run.add_tlc('Meta page model (all configurations)', r)
    run.exhaustive = r.complete
    if r.violated:
        run.tlc_violation('Meta', r)
    e = tlc.run_tlc(M, cfgpath('Meta_emit_small.cfg'), workers=1, timeout=1200)
    run.add_tlc('Meta emission', e)
    recs_in = tlc.pick(e.emits, 500 if quick else 6000, run.seed)
    rng = random.Random(run.seed + 18)
    from werkzeug.test import Client
    from werkzeug.wrappers import BaseResponse
    recs = []
    tid = 0
    for rec in recs_in:
        markers = dict((nc, 'MK%s%06dq' % (nc[:3], rng.randrange(10 ** 6))) for nc in NAMES)
        rec = dict(rec, _variant=rng.randrange(6))
        try:
            app, prefix = build(rec, markers)
        except Exception as ex:  # noqa
            run.violation('host-construction-raised:%s' % type(ex).__name__, 'configuration %r: %r' % (rec, ex), {'leg': 'L2', 'rec': rec})
            continue
        path = prefix + ('json/' if rec['view'] == 'json' else '')
        try:
            resp = Client(app, BaseResponse).get(path)
            status, body = resp.status_code, resp.get_data(as_text=True)
        except Exception as ex:  # noqa
            status, body = -1, 'escaped: %r' % (ex,)
        tid += 1
        o = project(rec, markers, status, body, rec['view'] == 'json')
        recs.append({'tid': tid, 'o': o, '_rec': rec})
    acc, rej = tracecheck.validate(run, 'Meta_Trace', spec('Meta_Trace.tla'), cfgpath('Meta_Trace.cfg'), None,
                                   [{k: v for k, v in r_.items() if not k.startswith('_')} for r_ in recs])
    run.traces += len(acc)
    run.evaluations += len(recs)
    run.notes['records'] = {'total': len(recs), 'accepted': len(acc), 'rejected': len(rej)}
    for r_ in recs:
        rec = r_['_rec']
        if r_['tid'] in acc and (any(x['nc'] in ('prefix', 'infix', 'suffix', 'exact') for x in rec['resources']) or 'cookie' in rec['mws']):
            run.nontrivial.add(json.dumps(rec, sort_keys=True))
    if recs:
        run.sample({'config': recs[len(recs) // 2]['_rec'], 'projection': recs[len(recs) // 2]['o']})
    for r_ in recs:
        if r_['tid'] in rej:
            o = r_['o']
            if o['status'] != 200:
                sig = 'meta-page-status:%s:%s' % (o['status'], r_['_rec']['view'])
            elif o['keyleak']:
                sig = 'cookie-key-or-intermediate-secret-disclosed:%s:depth%d' % (r_['_rec']['view'], r_['_rec']['depth'])
            elif any(x['leak'] and x['nc'] in ('prefix', 'infix', 'suffix', 'exact') for x in o['res']):
                sig = 'secret-resource-disclosed:%s%s' % (r_['_rec']['view'], ':via-context-processor' if 'ctxprocsecret' in r_['_rec']['mws'] else '')
            elif not o['inline_ok']:
                sig = 'broken-section-not-reported-inline:%s' % r_['_rec']['view']
            else:
                bad = [x for x in o['res'] if x['how'] not in ('redacted', 'visible')] or o['res']
                sig = 'resource-shown-wrongly:%s:%s:%s' % (bad[0]['nc'], bad[0]['how'], r_['_rec']['view'])
            run.violation(sig, 'meta page for %r projected to %r' % (r_['_rec'], o), {'leg': 'L2', 'rec': r_['_rec'], 'projection': o})


def replay(run, path):
    with open(path) as f:
        rp = json.load(f)
    print(json.dumps(rp['case'], indent=1)[:3000])
    print('re-run `bin/check C18 quick` to re-evaluate')
    return 1
