# -*- coding: utf-8 -*-
"""C03 - Middlewares nest in the documented M-shaped order.

L1  TLC on Onion.tla: Merge == documented order; ProperNesting, PhaseOrder, RenderIff, ShortCircuit,
    PassThrough, Complete on every reachable state of the request stack machine, for every
    configuration of three levels x fault plan x endpoint behaviour within the bound.
L2  behaviours emitted by TLC (levels, merged chain, fault plan, full enter/return/raise event
    trace with the identity of the value in flight) are replayed: the harness builds the outer
    application, the embedded application and the route with recording middlewares, sends one
    request and compares the recorded event list (identity of returned / raised objects included)
    with TLC's trace, event by event.
"""
import json

import tlc
from common import spec, cfgpath

PHASE = {1: 'request', 2: 'endpoint', 3: 'render'}


class Rec(object):
    def __init__(self):
        self.events = []
        self.labels = {}     # id(obj) -> (kind, by)
        self.keep = []

    def mark(self, obj, kind, by):
        self.labels[id(obj)] = (kind, list(by))
        self.keep.append(obj)
        return obj

    def label(self, obj):
        if obj is None:
            return ('nil', [0, 3])
        return self.labels.get(id(obj), ('alien', [9, 9]))


class MarkedError(Exception):
    pass


class MarkedTypeError(TypeError):
    """an application error that happens to derive from TypeError (bad argument): unwinds like any other"""


def make_resp(rec_, text):
    """the returned response object is a werkzeug Response, a bare BaseResponse or a *returned* HTTPException
    (all three are "a Response" for the framework: render must be skipped alike)"""
    from clastic import Response
    from werkzeug.wrappers import BaseResponse
    kind = rec_.get('_resp_kind', 0)
    if kind == 1:
        return BaseResponse(text)
    if kind == 2:
        from clastic.errors import Gone
        return Gone(text)
    return Response(text)


def make_exc(rec_, text):
    """the raised exception is a plain Exception or (every other behaviour) an HTTPException: both must unwind alike"""
    if rec_.get('_http_exc'):
        from clastic.errors import NotFound
        return NotFound(text)
    if rec_.get('_type_exc'):
        return MarkedTypeError(text)
    return MarkedError(text)


def build(rec_, R):
    """returns app, path"""
    from clastic import Application, Route, Response
    from clastic.middleware import Middleware
    chainpos = {}
    for k, c in enumerate(rec_['chain']):
        chainpos[(c['lvl'], c['i'])] = k + 1
    plan = rec_['plan']
    pf = tuple(plan['f'])
    classes = {}

    def cls_for(t):
        if t not in classes:
            attrs = {}
            if t == 'N':
                attrs['unique'] = False
                if rec_.get('_nonreord'):
                    attrs['reorderable'] = False     # Onion.tla consults `reorderable` only for unique types
            if t == 'X':
                attrs['reorderable'] = False
            base = Middleware
            if t == 'B' and rec_.get('_related'):
                base = cls_for('A')      # two DIFFERENT unique types related by inheritance (Auth / AdminAuth(Auth)): both run
            classes[t] = type('Mw' + t, (base,), attrs)
        return classes[t]

    def make_fn(label, ph):
        def fn(self, next):
            k = chainpos.get(label, -1)
            f = [k, ph]
            kind = plan['k'] if (k, ph) == pf else 'none'
            R.events.append(['enter', f, 'none', [0, 0]])
            if kind == 'raiseBefore':
                e = R.mark(make_exc(rec_, 'raised by %r' % (f,)), 'exc', f)
                R.events.append(['raise', f, 'exc', f])
                raise e
            if kind == 'short':
                r = R.mark(make_resp(rec_, 'short %r' % (f,)), 'resp', f)
                R.events.append(['return', f, 'resp', f])
                return r
            try:
                ret = next()
            except Exception as e:  # noqa
                if kind == 'swallow':
                    r = R.mark(make_resp(rec_, 'swallowed %r' % (f,)), 'resp', f)
                    R.events.append(['return', f, 'resp', f])
                    return r
                lk, lb = R.label(e)
                R.events.append(['raise', f, lk, lb])
                raise
            if kind == 'raiseAfter':
                e = R.mark(make_exc(rec_, 'raised after by %r' % (f,)), 'exc', f)
                R.events.append(['raise', f, 'exc', f])
                raise e
            lk, lb = R.label(ret)
            R.events.append(['return', f, lk, lb])
            return ret
        return fn

    shared = {}
    share_instances = bool(rec_.get('_share'))

    def make_fn_multi(labels_ref, ph):
        """one function object serving several chain positions (a non-unique middleware INSTANCE listed at several
        levels): entries nest in chain order, so the n-th active entry is the n-th position"""
        state = {'active': 0}

        def fn(self, next):
            labels = sorted(labels_ref, key=lambda lab: chainpos.get(lab, 10 ** 6))
            idx = state['active']
            state['active'] += 1
            try:
                label = labels[idx] if idx < len(labels) else (-1, -1)
                return make_fn(label, ph)(self, next)
            finally:
                state['active'] -= 1
        return fn

    def make_mw(m, lvl, i):
        base = cls_for(m['t'])
        key = (m['t'], tuple(m['ph']))
        if share_instances and m['t'] == 'N':
            if key in shared:
                inst, labels = shared[key]
                labels.append((lvl, i))
                return inst
            inst = base()
            labels = [(lvl, i)]
            shared[key] = (inst, labels)
            for ph in m['ph']:
                setattr(inst, PHASE[ph], make_fn_multi(labels, ph).__get__(inst, base))
            return inst
        inst = base()
        for ph in m['ph']:
            setattr(inst, PHASE[ph], make_fn((lvl, i), ph).__get__(inst, base))
        if rec_.get('_provides') and 2 in m['ph'] and (lvl + i) % 2 == 0:
            # a providing endpoint middleware: declares endpoint_provides and hands the value to next()
            name = 'eptok_%d_%d' % (lvl, i)
            inst.endpoint_provides = (name,)
            plain = make_fn((lvl, i), 2)

            def providing(self, next, _plain=plain, _name=name):
                return _plain(self, lambda: next(**{_name: 'tok'}))
            inst.endpoint = providing.__get__(inst, base)
        return inst

    outer = [make_mw(m, 1, i + 1) for i, m in enumerate(rec_['outer'])]
    inner = [make_mw(m, 2, i + 1) for i, m in enumerate(rec_['inner'])]
    route_mws = [make_mw(m, 3, i + 1) for i, m in enumerate(rec_['route'])]

    EP, RN = [0, 2], [0, 3]

    def endpoint():
        R.events.append(['enter', EP, 'none', [0, 0]])
        if (pf == (0, 2) and plan['k'] == 'raiseBefore') or rec_['epKind'] == 'raise':
            e = R.mark(make_exc(rec_, 'endpoint'), 'exc', EP)
            R.events.append(['raise', EP, 'exc', EP])
            raise e
        if rec_['epKind'] == 'response':
            r = R.mark(make_resp(rec_, 'endpoint response'), 'resp', EP)
            R.events.append(['return', EP, 'resp', EP])
            return r
        c = R.mark({'ctx': True}, 'ctx', EP)
        R.events.append(['return', EP, 'ctx', EP])
        return c

    def render(context):
        R.events.append(['enter', RN, 'none', [0, 0]])
        if pf == (0, 3) and plan['k'] == 'raiseBefore':
            e = R.mark(make_exc(rec_, 'render'), 'exc', RN)
            R.events.append(['raise', RN, 'exc', RN])
            raise e
        if rec_.get('rnKind') == 'none':
            R.events.append(['return', RN, 'nil', RN])
            return None
        r = R.mark(Response('rendered'), 'resp', RN)
        R.events.append(['return', RN, 'resp', RN])
        return r

    route = Route('/x', endpoint, render, middlewares=route_mws)
    sibs = []
    if rec_.get('_sibling'):
        # a sibling route bound BEFORE the route under test, with a middleware of its own: a route's stack is the merge of
        # the applications' lists and ITS OWN list - nothing of a sibling's may show up in it
        class MwSib(Middleware):
            def request(self, next):
                R.events.append(['enter', [99, 1], 'none', [0, 0]])
                return next()

            def endpoint(self, next):
                R.events.append(['enter', [99, 2], 'none', [0, 0]])
                return next()

            def render(self, next):
                R.events.append(['enter', [99, 3], 'none', [0, 0]])
                return next()
        sibs = [Route('/sib', lambda: Response('sibling'), middlewares=[MwSib()])]
    if not rec_['inner'] and rec_.get('_direct'):
        app = Application(sibs + [route], middlewares=outer)
        return app, '/x'
    sub = Application(sibs + [route], middlewares=inner)
    app = Application([('/sub', sub)], middlewares=outer)
    return app, '/sub/x'


def run_one(rec_, direct=False, share=False, http_exc=False, resp_kind=0, provides=False, related=False, sibling=False, nonreord=False, type_exc=False):
    from werkzeug.test import Client
    from werkzeug.wrappers import BaseResponse
    R = Rec()
    rec_ = dict(rec_, _direct=direct, _share=share, _http_exc=http_exc, _resp_kind=resp_kind, _provides=provides, _related=related,
                _sibling=sibling, _nonreord=nonreord, _type_exc=type_exc)
    try:
        app, path = build(rec_, R)
    except Exception as e:  # noqa  (the configuration is inside the model: construction must succeed)
        return [['construction-raised', [0, 0], type(e).__name__, [0, 0]]], -1
    cl = Client(app, BaseResponse)
    try:
        resp = cl.get(path)
    except Exception as e:  # noqa
        return R.events + [['escaped', [0, 0], type(e).__name__, [0, 0]]], -1
    events = list(R.events)
    # an unknown URL is answered by the catch-all route, which is a route of the OUTER application like any other: the
    # outer application's request middlewares run for it, in list order (Merge with an empty inner / route list)
    del R.events[:]
    try:
        cl.get('/no/such/url/zz')
        R.null_entered = [e[1] for e in R.events if e[0] == 'enter' and e[1][1] == 1]
    except Exception as e:  # noqa
        R.null_entered = ['escaped:' + type(e).__name__]
    run_one.null_entered = R.null_entered
    return events, resp.status_code


def expected_events(rec_):
    return [[e['a'], list(e['f']), e['k'], list(e['by'])] for e in rec_['trace']]


def first_diff(exp, obs):
    for k in range(max(len(exp), len(obs))):
        a = exp[k] if k < len(exp) else None
        b = obs[k] if k < len(obs) else None
        if a != b:
            return k, a, b
    return None


def classify(exp, obs, k, a, b):
    if a is None:
        return 'extra-events'
    if b is None:
        return 'missing-events'
    if a[0] != b[0] or a[1] != b[1]:
        if a[0] == 'enter' and b[0] == 'enter':
            return 'wrong-function-entered'
        return 'wrong-event-order'
    return 'wrong-value-passed'


def check(run):
    quick = run.tier == 'quick'
    O = spec('Onion.tla')
    run.rule = ('behaviours = (three-level middleware configuration, fault plan, endpoint kind) with TLC\'s full event trace; '
                'non-trivial = at least 2 middleware functions in the merged chain or a fault plan other than none')
    run.assumptions = ['a unique type listed twice within ONE list and non-reorderable duplicates (ValueError) are outside the model',
                       'process_request glue is not observable and has no events']
    r = tlc.run_tlc(O, cfgpath('Onion_quick.cfg' if quick else 'Onion_thorough.cfg'), timeout=3400)
    run.add_tlc('Onion exhaustive', r)
    run.exhaustive = r.complete
    if r.violated:
        run.tlc_violation('Onion', r)
    behaviours = []
    for k, mint in enumerate((1, 3, 4) if quick else (0, 1, 2, 3, 4, 5)):
        cfg = cfgpath('Onion_emit.cfg')
        text = open(cfg).read().replace('MinTotal = 3', 'MinTotal = %d' % mint)
        if mint >= 5:
            text = text.replace('MaxTotal = 4', 'MaxTotal = 6').replace('MaxPerLevel = 2', 'MaxPerLevel = 3')
        import common
        cfg2 = common.write_cfg('Onion_emit_%d' % mint, text)
        e = tlc.run_tlc(O, cfg2, workers=1, simulate=(1500 if quick else 20000), depth=60, seed=run.seed + 41 + k)
        run.add_tlc('Onion emission (simulate, >= %d middlewares)' % mint, e)
        behaviours += e.emits
    seen = set()
    uniq = []
    for b in behaviours:
        key = json.dumps([b['outer'], b['inner'], b['route'], b['plan'], b['epKind'], b.get('rnKind')], sort_keys=True)
        if key not in seen:
            seen.add(key)
            uniq.append((key, b))
    uniq = tlc.pick(uniq, 2500 if quick else 40000, run.seed)
    for n, (key, b) in enumerate(uniq):
        exp = expected_events(b)
        direct = (n % 2 == 0)
        share, http_exc, resp_kind, provides = (n % 3 == 1), (n % 4 >= 2), (n // 2) % 3, (n % 5 < 2)
        related, sibling, nonreord = (n % 2 == 1), (n % 3 != 0), (n % 4 < 2)
        type_exc = (not http_exc) and (n % 3 == 2)
        obs, status = run_one(b, direct=direct, share=share, http_exc=http_exc, resp_kind=resp_kind, provides=provides,
                              related=related, sibling=sibling, nonreord=nonreord, type_exc=type_exc)
        # catch-all probe: the request-phase functions of the OUTER list, up to the first that does not call next()
        outer_req = [c for c in b['chain'] if c['lvl'] == 1 and 1 in c['ph']]
        exp_null = []
        for c in outer_req:
            kpos = [k + 1 for k, cc in enumerate(b['chain']) if cc['lvl'] == c['lvl'] and cc['i'] == c['i']][0]
            exp_null.append([kpos, 1])
            if tuple(b['plan']['f']) == (kpos, 1) and b['plan']['k'] in ('raiseBefore', 'short'):
                break
        got_null = getattr(run_one, 'null_entered', None)
        if not share and got_null is not None and got_null != exp_null:
            run.violation('catch-all-route-middlewares', 'unknown URL: request middlewares entered %r, the outer application lists %r'
                          % (got_null, exp_null), {'leg': 'L2', 'behaviour': b, 'observed': got_null, 'expected': exp_null,
                                                    'direct': direct})
        run.evaluations += 1
        if len(b['chain']) >= 2 or b['plan']['k'] != 'none':
            run.nontrivial.add(key)
        d = first_diff(exp, obs)
        final_ok = (status in (200, 410)) == (b['final']['k'] == 'resp')
        if d is None and final_ok:
            run.traces += 1
        elif d is not None:
            k, a, bb = d
            run.violation(classify(exp, obs, k, a, bb),
                          'event %d: spec %r, implementation %r (plan %r)' % (k, a, bb, b['plan']),
                          {'leg': 'L2', 'behaviour': b, 'observed': obs, 'direct': direct, 'share': share, 'http_exc': http_exc, 'resp_kind': resp_kind, 'provides': provides,
                           'related': related, 'sibling': sibling, 'nonreord': nonreord, 'type_exc': type_exc, 'first_diff': [k, a, bb]})
        else:
            run.violation('final-status', 'final value %r but status %s' % (b['final'], status),
                          {'leg': 'L2', 'behaviour': b, 'observed': obs, 'direct': direct})
        if n < 2:
            run.sample({'outer': b['outer'], 'inner': b['inner'], 'route': b['route'], 'plan': b['plan'],
                        'epKind': b['epKind'], 'trace': exp[:12]})


def replay(run, path):
    with open(path) as f:
        rp = json.load(f)
    c = rp['case']
    obs, status = run_one(c['behaviour'], direct=c.get('direct', False), share=c.get('share', False), http_exc=c.get('http_exc', False),
                          resp_kind=c.get('resp_kind', 0), provides=c.get('provides', False), related=c.get('related', False),
                          sibling=c.get('sibling', False), nonreord=c.get('nonreord', False), type_exc=c.get('type_exc', False))
    exp = expected_events(c['behaviour'])
    d = first_diff(exp, obs)
    print('expected:', exp)
    print('observed:', obs, status)
    return 1 if d else 0
