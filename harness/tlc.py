# -*- coding: utf-8 -*-
"""Thin driver around TLC / SANY.

* run_tlc(...)   : run one TLC process, parse statistics, EMIT/PrintT lines, violations
* run_sharded(...): N independent single-worker TLC processes over shards of a trace file
* sany(...)      : parse a module (machinery self check)

Nothing in here decides a property: expected values always come out of TLC
(EMIT lines) or verdicts are computed by TLC (ACCEPT/REJECT lines, invariants).
"""
import json
import os
import re
import shutil
import subprocess
import time
from concurrent.futures import ThreadPoolExecutor

VERIF = os.path.dirname(os.path.dirname(os.path.abspath(__file__)))
SPEC = os.path.join(VERIF, 'spec')
WORK = os.path.join(os.environ.get('VERIF_OUT') or VERIF, 'work')
JAR = '/opt/veriftools/tla/tla2tools.jar'
DEPS = '/opt/veriftools/tla/CommunityModules-deps.jar'


class MachineryError(Exception):
    """TLC/SANY crashed, spec did not parse, trace file malformed ... (exit 2)"""


class TLCResult(object):
    def __init__(self):
        self.rc = None
        self.out = ''
        self.generated = 0
        self.distinct = 0
        self.emits = []        # decoded EMIT records (python objects)
        self.prints = []       # other PrintT tuples, raw text
        self.violated = None   # name of violated invariant / property
        self.error = None      # other TLC error text
        self.cex = None        # counterexample text
        self.wall = 0.0
        self.coverage = {}     # action name -> (distinct, total)
        self.complete = False  # BFS finished (model checking completed)
        self.depth = None

    def ok(self):
        return self.violated is None and self.error is None


_EMIT_RE = re.compile(r'^<<"EMIT", (".*")>>$')
_TAG_RE = re.compile(r'^<<"([A-Z]+)", (.*)>>$')


def _decode_emit(lit):
    # the TLA+ string literal is a valid JSON string literal holding JSON text
    return json.loads(json.loads(lit))


def parse_output(res, text, want_tags=()):
    gen = 0
    dist = 0
    lines = text.splitlines()
    cex = []
    in_cex = False
    for ln in lines:
        if ln.startswith('<<"EMIT", '):
            m = _EMIT_RE.match(ln)
            if not m:
                raise MachineryError('cannot parse EMIT line: %r' % ln[:200])
            res.emits.append(_decode_emit(m.group(1)))
            continue
        if ln.startswith('<<"'):
            res.prints.append(ln)
            continue
        m = re.match(r'^(\d+) states generated, (\d+) distinct states found, (\d+) states left on queue', ln)
        if m:
            gen, dist = int(m.group(1)), int(m.group(2))
            continue
        m = re.match(r'^The number of states generated: (\d+)', ln)
        if m:
            gen = int(m.group(1))
            dist = max(dist, 0)
            continue
        m = re.match(r'^Progress: (\d+) states checked', ln)  # simulation mode
        if m:
            gen = max(gen, int(m.group(1)))
            continue
        m = re.match(r'^Error: Invariant (\S+) is violated', ln)
        if m:
            res.violated = m.group(1)
            in_cex = True
            continue
        m = re.match(r'^Error: Action property (\S+) is violated', ln)
        if m:
            res.violated = m.group(1)
            in_cex = True
            continue
        if ln.startswith('Error: Temporal properties were violated'):
            res.violated = res.violated or 'TemporalProperty'
            in_cex = True
            continue
        if ln.startswith('Error: Deadlock reached'):
            res.violated = 'Deadlock'
            in_cex = True
            continue
        if ln.startswith('Error: The postcondition'):
            res.violated = 'Postcondition'
            continue
        if ln.startswith('Error:') and res.error is None and res.violated is None:
            res.error = ln
            in_cex = True
            continue
        if 'Model checking completed. No error has been found' in ln:
            res.complete = True
        m = re.match(r'^The depth of the complete state graph search is (\d+)', ln)
        if m:
            res.depth = int(m.group(1))
        if in_cex:
            cex.append(ln)
    # coverage lines:  <Action line ..., col ... of module M>: distinct:total
    for m in re.finditer(r'^<(\w+) line \d+, col \d+ to line \d+, col \d+ of module (\w+)>: (\d+):(\d+)',
                         text, re.M):
        name = m.group(1)
        d, t = int(m.group(3)), int(m.group(4))
        old = res.coverage.get(name, (0, 0))
        res.coverage[name] = (max(old[0], d), max(old[1], t))
    res.generated = gen
    res.distinct = dist
    res.cex = '\n'.join(cex[:400]) if cex else None
    return res


def run_tlc(module, cfg, workers=16, simulate=None, depth=None, seed=None, simfile=None,
            env=None, timeout=3600, coverage=False, deadlock=False, xmx='6g',
            tag=None, dfs=False, extra=()):
    """module: path of .tla (under spec/); cfg: path of cfg file."""
    os.makedirs(WORK, exist_ok=True)
    tag = tag or ('%s-%d-%d' % (os.path.basename(cfg), os.getpid(), int(time.time() * 1000) % 100000000))
    metadir = os.path.join(WORK, 'meta', tag)
    shutil.rmtree(metadir, ignore_errors=True)
    os.makedirs(metadir, exist_ok=True)
    # TLC creates a scratch directory (tlc-<n>) in java.io.tmpdir on every start: keep it inside the run's own metadir
    # (removed below) instead of leaving one behind in /tmp per invocation
    cmd = ['java', '-XX:+UseParallelGC', '-Xmx' + xmx, '-Djava.io.tmpdir=' + metadir]
    if dfs:
        cmd.append('-Dtlc2.tool.queue.IStateQueue=StateDeque')
    cmd += ['-cp', JAR + ':' + DEPS, 'tlc2.TLC',
            '-workers', str(workers), '-metadir', metadir, '-noGenerateSpecTE',
            '-config', cfg]
    if not deadlock:
        cmd.append('-deadlock')   # -deadlock DISABLES deadlock checking
    if coverage:
        cmd += ['-coverage', '1']
    if simulate:
        cmd += ['-simulate', ('file=%s,' % simfile if simfile else '') + 'num=%d' % simulate]
        if depth:
            cmd += ['-depth', str(depth)]
    if seed is not None:
        cmd += ['-seed', str(seed)]
    cmd += list(extra)
    cmd.append(module)
    e = dict(os.environ)
    e.pop('JAVA_TOOL_OPTIONS', None)
    if env:
        e.update(env)
    t0 = time.time()
    outpath = os.path.join(metadir, 'tlc.out')
    try:
        with open(outpath, 'w') as fo:
            p = subprocess.run(cmd, stdout=fo, stderr=subprocess.STDOUT, env=e,
                               cwd=os.path.dirname(module), timeout=timeout)
        rc = p.returncode
        timed_out = False
    except subprocess.TimeoutExpired:
        rc = -9
        timed_out = True
    with open(outpath, errors='replace') as fi:
        text = fi.read()
    res = TLCResult()
    res.rc = rc
    res.out = text
    res.wall = time.time() - t0
    parse_output(res, text)
    shutil.rmtree(metadir, ignore_errors=True)
    if timed_out:
        res.error = 'TIMEOUT after %ss' % timeout
    # rc 0 = ok, 12 = safety violation, 13 = liveness, 11 = deadlock; others are machinery failures
    if rc not in (0, 10, 11, 12, 13) and not timed_out:
        if res.violated is None:
            raise MachineryError('TLC failed rc=%s on %s / %s:\n%s'
                                 % (rc, module, cfg, text[-3000:]))
    if res.error and res.violated is None and not timed_out:
        raise MachineryError('TLC error on %s / %s: %s\n%s' % (module, cfg, res.error, text[-3000:]))
    return res


def run_sharded(module, cfg, records, nshards=16, timeout=3600, tag='shard', xmx='2g', env=None):
    """records: list of json-able dicts, one per line. Splits into nshards ndjson files,
    runs one single-worker TLC per shard with TRACE_FILE pointing to it.
    Returns list of TLCResult (one per non-empty shard)."""
    os.makedirs(WORK, exist_ok=True)
    d = os.path.join(WORK, 'shards-%s-%d' % (tag, os.getpid()))
    shutil.rmtree(d, ignore_errors=True)
    os.makedirs(d)
    nshards = max(1, min(nshards, len(records)))
    files = []
    for k in range(nshards):
        part = records[k::nshards]
        if not part:
            continue
        fn = os.path.join(d, 'shard%02d.ndjson' % k)
        with open(fn, 'w') as f:
            for r in part:
                f.write(json.dumps(r, separators=(',', ':')) + '\n')
        files.append(fn)

    def one(fn):
        e = {'TRACE_FILE': fn}
        if env:
            e.update(env)
        return run_tlc(module, cfg, workers=1, env=e, timeout=timeout, xmx=xmx,
                       tag='%s-%s-%d' % (tag, os.path.basename(fn), os.getpid()))
    with ThreadPoolExecutor(max_workers=16) as ex:
        results = list(ex.map(one, files))
    shutil.rmtree(d, ignore_errors=True)
    return results


def sany(module):
    cmd = ['java', '-cp', JAR + ':' + DEPS, 'tla2sany.SANY', module]
    p = subprocess.run(cmd, stdout=subprocess.PIPE, stderr=subprocess.STDOUT,
                       cwd=os.path.dirname(module), timeout=300)
    text = p.stdout.decode('utf8', 'replace')
    ok = p.returncode == 0 and 'Semantic errors' not in text and 'Parse Error' not in text \
        and 'Could not parse' not in text and 'Fatal errors' not in text
    return ok, text


def pick(items, n, seed=0):
    """deterministic, evenly spread subsample of at most n items (simulation mode evaluates the
    Emit invariant on every candidate successor, so the number of EMIT lines is not `num`)."""
    if len(items) <= n:
        return list(items)
    import random as _r
    rng = _r.Random(seed)
    idx = sorted(rng.sample(range(len(items)), n))
    return [items[i] for i in idx]


def tagged(res, tag):
    """Return decoded payloads of PrintT(<<TAG, ...>>) lines; payload parsed as a TLA+ tuple of
    ints/strings (simple values only)."""
    out = []
    pre = '<<"%s", ' % tag
    for ln in res.prints:
        if ln.startswith(pre) and ln.endswith('>>'):
            body = ln[len(pre):-2]
            out.append(parse_simple_tuple(body))
    return out


def parse_simple_tuple(body):
    """parse `1, "abc", TRUE, 3` -> [1, 'abc', True, 3] (no nesting)."""
    out = []
    i = 0
    n = len(body)
    while i < n:
        c = body[i]
        if c in ' ,':
            i += 1
            continue
        if c == '"':
            j = i + 1
            buf = []
            while body[j] != '"':
                if body[j] == '\\':
                    j += 1
                buf.append(body[j])
                j += 1
            out.append(''.join(buf))
            i = j + 1
        else:
            j = i
            while j < n and body[j] not in ',':
                j += 1
            tok = body[i:j].strip()
            if tok == 'TRUE':
                out.append(True)
            elif tok == 'FALSE':
                out.append(False)
            else:
                try:
                    out.append(int(tok))
                except ValueError:
                    out.append(tok)
            i = j
    return out
