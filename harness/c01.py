# -*- coding: utf-8 -*-
"""C01 - Bind-time dependency check is sound and complete.

L1  TLC on Inject.tla: the set arithmetic of chain_argspec / make_chain / make_middleware_chain /
    build_chain_str (Algo*) accepts exactly the declaratively Resolvable configurations and passes
    every function exactly the available names (AlgoSound, AlgoComplete, AlgoPassesSame,
    NoMissingArg) - exhaustive within budgets, simulation beyond.
L2  configurations emitted by TLC are turned into real Middleware classes / functions (all
    carriers, keyword-only parameters), constructed, and requests are sent to the route and to
    the catch-all (404 and 405); construction outcome must be one the spec allows, no request
    may fail with a missing/unexpected argument, and every function must receive exactly the
    names the spec computed.
"""
import json

import inject_check as ic


def check(run):
    quick = run.tier == 'quick'
    run.rule = ('configurations = states of Inject.tla (middlewares x functions x parameters x provides x sources), '
                'de-duplicated; non-trivial = at least one parameter AND (a provide or a URL binding or a resource), '
                'i.e. the verdict depends on set arithmetic, not on an empty chain')
    run.assumptions = ['*args/**kwargs, functools.partial and classes as endpoints are outside the quantifier',
                       'cyclic provide graphs: either construction outcome accepted (Cyclic over-approximated)',
                       'size-independence of the rule beyond the explored budgets is an argument, not a proof']
    ic.run_l1(run,
              [('Inject exhaustive (algorithm == declarative rule)', 'Inject_quick.cfg' if quick else 'Inject_thorough.cfg')],
              [('Inject simulation (3 middlewares, budgets 6/3)', 'Inject_sim.cfg', 300 if quick else 30000, 16)])
    recs = ic.emit(run, 'Inject emission (simulate)', 'Inject_emit.cfg', 250 if quick else 6000, 16,
                   3000 if quick else 60000)
    recs2 = ic.emit(run, 'Inject emission (exhaustive, small budgets)', 'Inject_emit_small.cfg', 0, 0,
                    1500 if quick else 20000, seed_off=5, bfs=True)
    # rejected configurations with several missing names in one phase (the error must still be a NameError)
    recs3 = ic.emit(run, 'Inject emission (exhaustive, several names missing in one phase)', 'Inject_emit_unres.cfg', 0, 0,
                    1200 if quick else 20000, seed_off=6, bfs=True)
    opts = {'mode': 'C01', 'kwonly': True, 'posonly': False, 'carriers': True}
    res = ic.replay_records(run, recs + recs2 + recs3, opts, [0, 1] if quick else [0, 1, 2, 3], run.seed, 'c01')

    def nontrivial(rec):
        return bool(rec['P']) and bool(rec['V'] or rec['url'] or rec['res'] or rec['rres'])
    cov = ic.absorb(run, res, nontrivial)
    # positional-only parameters (inside the quantifier): separate batch so that the signature is precise
    def two_opt(r):
        cnt = {}
        for p_ in r['P']:
            if p_['d'] and p_['f'] in (r['EPF'], r['RNF']):
                cnt[p_['f']] = cnt.get(p_['f'], 0) + 1
        return any(v >= 2 for v in cnt.values())
    def has_mid(r):
        # a middleware function in the endpoint / render phase precedes the endpoint / render function in the generated chain
        return any(p_['f'] <= 3 * r['n'] and (p_['f'] - 1) % 3 + 1 in (2, 3) for p_ in r['P']) or any(b_[1] in (2, 3) for b_ in r['bare'])
    porecs = sorted([r for r in recs + recs2 if two_opt(r)], key=lambda r: not has_mid(r))[:300] * 2 + \
        [r for r in recs + recs2 if any((not p['d']) and p['f'] in (r['EPF'], r['RNF']) for p in r['P'])]
    po = ic.replay_records(run, porecs[:600 if quick else 8000],
                           {'mode': 'C01', 'kwonly': False, 'posonly': True, 'carriers': True},
                           [0], run.seed + 1, 'c01po')
    cov2 = ic.absorb(run, po, nontrivial)
    run.notes['replay_coverage'] = cov
    run.notes['replay_coverage_posonly_batch'] = cov2
    for r in (recs + recs2)[:3]:
        run.sample({k: r[k] for k in ('n', 'nApp', 'P', 'V', 'url', 'res', 'rres', 'hasRender', 'allowed')})


def replay(run, path):
    import inject_worker
    with open(path) as f:
        rp = json.load(f)
    c = rp['case']
    viol, info = inject_worker.check_one(c['rec'], c['seed'], c['opts'])
    print(info)
    for sig, what, _d in viol:
        print('still violates:', sig, '-', what)
    return 1 if viol else 0
