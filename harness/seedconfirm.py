# -*- coding: utf-8 -*-
"""Confirm a proposed breaking change and file it under /verif/seeded/ (development tool, not a registered command).

usage: seedconfirm.py <property id> <dir with patch.diff + demo.py [+ README.md]> <name>

In a scratch worktree outside /repo and /verif: demo.py passes on the unchanged tree, the patch applies, demo.py fails
with it, the repository's test-suite still passes with it.  Writes /verif/seeded/<id>-<name>/{patch.diff,demo.py,README.md,
meta.json}; the checks are then run by seedmatrix.py.
"""
import json
import os
import shutil
import subprocess
import sys
import time

VERIF = os.path.dirname(os.path.dirname(os.path.abspath(__file__)))
PY = '/venv/bin/python'


def sh(cmd, cwd=None, env=None, timeout=1800):
    e = dict(os.environ)
    if env:
        e.update(env)
    p = subprocess.run(cmd, shell=True, cwd=cwd, env=e, stdout=subprocess.PIPE, stderr=subprocess.STDOUT, timeout=timeout)
    return p.returncode, p.stdout.decode('utf8', 'replace')


def main():
    pid, mdir, name = sys.argv[1], os.path.abspath(sys.argv[2]), sys.argv[3]
    patch = os.path.join(mdir, 'patch.diff')
    demo = os.path.join(mdir, 'demo.py')
    wt = '/tmp/seedconfirm-%s-%s-%d' % (pid, name, os.getpid())
    meta = {'property': pid, 'name': name, 'when': time.strftime('%Y-%m-%dT%H:%M:%SZ', time.gmtime())}
    rc, out = sh('git -C /repo worktree add -q --detach %s HEAD' % wt)
    if rc != 0:
        print(out)
        return 2
    try:
        env = {'PYTHONPATH': wt, 'PYTHONDONTWRITEBYTECODE': '1'}
        rc0, out0 = sh('%s -W ignore %s' % (PY, demo), cwd=wt, env=env)
        meta['demo_passes_without_change'] = rc0 == 0
        rc, out = sh('git apply %s' % patch, cwd=wt)
        meta['applies'] = rc == 0
        if rc != 0:
            print(pid, name, 'patch does not apply:', out[-300:])
            return 1
        rc1, out1 = sh('%s -W ignore %s' % (PY, demo), cwd=wt, env=env)
        meta['demo_fails_with_change'] = rc1 != 0
        meta['demo_output_with_change'] = out1[-600:]
        rct, outt = sh('%s -m pytest -q -p no:cacheprovider -x 2>&1 | tail -3' % PY, cwd=wt, env=env)
        meta['repo_tests_with_change'] = outt.strip().splitlines()[-1] if outt.strip() else ''
        meta['repo_tests_pass_with_change'] = ' passed' in outt and ' failed' not in outt and ' error' not in outt
    finally:
        sh('git -C /repo worktree remove --force %s' % wt)
        shutil.rmtree(wt, ignore_errors=True)
    meta['confirmed'] = bool(meta['demo_passes_without_change'] and meta['demo_fails_with_change'] and meta['repo_tests_pass_with_change'])
    meta['checks'] = {}
    meta['detected_by'] = []
    if os.path.exists(os.path.join(mdir, 'README.md')):
        meta['needs'] = open(os.path.join(mdir, 'README.md')).read()[:1500]
    if not meta['confirmed']:
        print(pid, name, 'NOT CONFIRMED', json.dumps({k: meta[k] for k in ('demo_passes_without_change', 'demo_fails_with_change',
                                                                         'repo_tests_with_change')}))
        return 1
    dest = os.path.join(VERIF, 'seeded', '%s-%s' % (pid, name))
    os.makedirs(dest, exist_ok=True)
    for fn in ('patch.diff', 'demo.py', 'README.md'):
        if os.path.exists(os.path.join(mdir, fn)) and os.path.abspath(mdir) != os.path.abspath(dest):
            shutil.copy(os.path.join(mdir, fn), os.path.join(dest, fn))
    with open(os.path.join(dest, 'meta.json'), 'w') as f:
        json.dump(meta, f, indent=1)
    print(pid, name, 'confirmed')
    return 0


if __name__ == '__main__':
    sys.exit(main())
