# -*- coding: utf-8 -*-
"""C15 - Built-in middlewares never change what the client receives.

L1  TLC on BuiltinMw.tla: Transparent, EncodedOnlyIfAccepted, VaryWhenEncoded over every stack (<= 2-3
    of the 9 built-in middlewares, ordered) x 16 scenarios x 7 Accept-Encoding classes.
L2  TLC enumerates the stacks; for each one the harness builds the scenario application with and without
    the stack (differential), sends every scenario x Accept-Encoding class to both, decodes the body with
    the gzip module (projection) and records [status, baseline status, decoded body identical, encoded,
    Content-Encoding / Content-Length / Vary correct]; TLC judges every record (BuiltinMw_Trace.tla).
"""
import gzip
import io
import json
import os
import random

import tlc
import tracecheck
from common import spec, cfgpath

AE_HEADER = {'absent': None, 'gzip': 'gzip', 'gzip_q0': 'gzip;q=0', 'star': '*', 'identity': 'identity',
             'deflate_gzip_q05': 'deflate, gzip;q=0.5', 'gzip_q1_identity_q0': 'gzip;q=1.0, identity;q=0'}
BIG = (b'compressible line of text 0123456789\n' * 3000)
RND = bytes(random.Random(7).getrandbits(8) for _ in range(100000))
PREGZ = gzip.compress(b'pre-compressed by the application, very repetitive ' * 20000, 6)
BADCOOKIES = {'ok200cookie1': 'clastic_cookie=QUJD?k\xe9=InYi', 'ok200cookie2': 'clastic_cookie=QUJ?a=InYi',
              'ok200cookie3': 'clastic_cookie=not-a-cookie-at-all; other=1'}
SCENARIOS = ['ok200k16', 'nohdr204', 'ok200mount', 'post200', 'ok200pregz', 'ok200cookie1', 'ok200cookie2', 'ok200cookie3', 'ok200vary', 'ok200prof', 'ok200', 'ok200big', 'ok200random', 'ok200empty', 'ctx', 'ctxbig', 'head', 'redirect', 'raise404', 'ret404',
             'nb404', 'unknown404', 'wrong405', 'raise503', 'ret418', 'uncaught500']


def make_mw(name):
    from clastic.middleware.compress import GzipMiddleware
    from clastic.middleware.client_cache import HTTPCacheMiddleware
    from clastic.middleware.stats import StatsMiddleware
    from clastic.middleware.profile import SimpleProfileMiddleware
    from clastic.middleware.cookie import SignedCookieMiddleware
    from clastic.middleware.context import ContextProcessor
    from clastic.middleware.url import GetParamMiddleware, ScriptRootMiddleware
    from clastic.middleware.form import PostDataMiddleware
    return {'gzip': lambda: GzipMiddleware(), 'cache': lambda: HTTPCacheMiddleware(), 'stats': lambda: StatsMiddleware(),
            'profile': lambda: SimpleProfileMiddleware(), 'cookie': lambda: SignedCookieMiddleware(secret_key=b'k'),
            'ctxproc': lambda: ContextProcessor(),
            # the parameter extractors declare a converting type; requests carry text that type rejects
            'getparam': lambda: GetParamMiddleware({'gp': int}),
            'postdata': lambda: PostDataMiddleware({'pd': int, 'price': float}), 'scriptroot': lambda: ScriptRootMiddleware()}[name]()


def build(stack):
    from clastic import Application, Response, POST
    from clastic.errors import NotFound, ServiceUnavailable, ImATeapot
    from werkzeug.utils import redirect

    def render(context):
        return Response(json.dumps(context, sort_keys=True), mimetype='application/json')

    def raise404():
        raise NotFound('gone fishing')

    def nb404():
        raise NotFound('soft', is_breaking=False)

    def raise503():
        raise ServiceUnavailable('later')

    def boom():
        raise ValueError('uncaught value error')
    def with_vary():
        r = Response(BIG, mimetype='text/plain')
        r.vary.add('Cookie')           # the application sets its own Vary
        return r
    def pregz():
        r = Response(PREGZ, mimetype='text/plain')
        r.headers['Content-Encoding'] = 'gzip'      # the application serves a pre-compressed payload
        return r
    def nohdr204():
        r = Response(status=204)
        del r.headers['Content-Type']            # No Content: no entity, no Content-Type
        return r
    routes = [('/ok200', lambda: Response(b'small body', mimetype='text/plain')),
              ('/nohdr204', nohdr204),
              # a compressible body whose length is an exact multiple of common buffer sizes (16 KiB, 64 KiB)
              ('/ok200k16', lambda: Response(b'abcdefgh' * (65536 // 8), mimetype='text/plain')),
              POST('/post200', lambda: Response(b'posted ok', mimetype='text/plain')),
              ('/ok200pregz', pregz),
              ('/ok200vary', with_vary),
              ('/ok200prof', lambda: Response(b'profiler not triggered', mimetype='text/plain')),
              ('/ok200big', lambda: Response(BIG, mimetype='text/plain')),
              ('/ok200random', lambda: Response(RND, mimetype='application/octet-stream')),
              ('/ok200empty', lambda: Response(b'', mimetype='text/plain')),
              ('/ctx', lambda: {'a': 1, 'b': [1, 2, 3]}, render),
              ('/ctxbig', lambda: {'rows': ['row %d' % i for i in range(5000)]}, render),
              ('/head', lambda: Response(b'body for head', mimetype='text/plain')),
              ('/redirect', lambda: redirect('/ok200')),
              ('/raise404', raise404),
              ('/ret404', lambda: NotFound('returned')),
              ('/nb404', nb404),
              ('/raise503', raise503),
              ('/ret418', lambda: ImATeapot('short and stout')),
              ('/uncaught500', boom),
              POST('/wrong405', lambda: Response('posted'))]
    return Application(routes, middlewares=[make_mw(m) for m in stack])


def request(app, scen, ae):
    from werkzeug.test import create_environ, run_wsgi_app
    path = '/' + scen if scen != 'unknown404' else '/no/such/url'
    if scen in BADCOOKIES or scen == 'ok200mount':
        path = '/ok200'
    method = 'HEAD' if scen == 'head' else ('POST' if scen == 'post200' else 'GET')
    # a sort key for the profiler WITHOUT its trigger parameter: the profiler must stay out of the way
    qs = '_prof_sort=calls' if scen == 'ok200prof' else ('gp=notanint&gp=7' if scen in ('ok200', 'post200', 'ctx') else None)
    kw = {}
    if scen == 'post200':
        kw = {'data': b'pd=three&price=9,50&other=1', 'content_type': 'application/x-www-form-urlencoded'}
    env = create_environ(path, method=method, query_string=qs, **kw)
    if AE_HEADER[ae] is not None:
        env['HTTP_ACCEPT_ENCODING'] = AE_HEADER[ae]
    if scen in BADCOOKIES:
        env['HTTP_COOKIE'] = BADCOOKIES[scen]       # a client presenting a malformed / foreign cookie
    if scen == 'ok200mount':
        env['SCRIPT_NAME'] = '/caf\xe9/m\xfcnchen'    # mounted under a prefix whose bytes are not UTF-8 (a latin-1 deployment)
    try:
        app_iter, status, headers = run_wsgi_app(app, env)
        body = b''.join(app_iter)
        if hasattr(app_iter, 'close'):
            app_iter.close()
    except Exception as e:  # noqa
        return {'status': -1, 'body': b'', 'headers': {}, 'escaped': type(e).__name__}
    return {'status': int(status.split()[0]), 'body': body, 'headers': dict((k.lower(), v) for k, v in headers)}


def norm_body(b):
    # the default 500 body embeds the traceback depth ("(7 frames, ..."); a middleware necessarily adds frames
    import re
    return re.sub(br'\(\d+ frames, ', b'(N frames, ', b)


def observe(base, resp, stack):
    h = resp['headers']
    ce = h.get('content-encoding', '')
    base_ce = base['headers'].get('content-encoding', '')
    ok_decode = True

    def decode(body, enc):
        # what the client ends up with: one decoding step per listed coding
        for _ in [c for c in enc.lower().split(',') if c.strip() == 'gzip']:
            body = gzip.GzipFile(fileobj=io.BytesIO(body)).read()
        return body
    try:
        decoded = decode(resp['body'], ce)
        base_decoded = decode(base['body'], base_ce)
    except Exception:  # noqa
        ok_decode = False
        decoded = base_decoded = None
    # "encoded" = encoded BY THE MIDDLEWARE (a payload the application pre-compressed is the application's business)
    encoded = 'gzip' in ce.lower() and 'gzip' not in base_ce.lower()
    cl = h.get('content-length')
    return {'status': resp['status'], 'base_status': base['status'], 'decoded_same': ok_decode and norm_body(decoded) == norm_body(base_decoded),
            'encoded': encoded, 'ce_gzip': ce.strip().lower() == 'gzip',
            'cl_matches': cl is not None and int(cl) == len(resp['body']),
            'vary_ae': 'accept-encoding' in h.get('vary', '').lower(), 'has_gzip': 'gzip' in stack}


def leg_aged_stats(run, base, recs, tid, nreq):
    """Transparent is a per-request statement and therefore holds at every point of a middleware's life: a stats
    middleware whose reservoirs are FULL (shrunk to 2 samples through Reservoir.resize, its public API, so that "full" is
    reached after 2 hits instead of 16384) must still hand every response through unchanged."""
    import random as _random
    _random.seed(run.seed * 7 + 1)
    app = build(['stats'])
    smw = app.middlewares[0]
    scens = ['ok200', 'raise404', 'ctx', 'ret418']
    for s in scens:
        for _ in range(2):
            request(app, s, 'absent')
    for per_route in list(smw.route_hits.values()):
        for res in list(per_route.values()):
            res.resize(2)
    for i in range(nreq):
        s = scens[i % len(scens)]
        resp = request(app, s, 'gzip' if i % 3 == 0 else 'absent')
        a = 'gzip' if i % 3 == 0 else 'absent'
        tid += 1
        recs.append({'tid': tid, 'ae': a, 'o': observe(base[(s, a)], resp, ['stats']), '_stack': ['stats'], '_scen': s,
                     '_escaped': resp.get('escaped'), '_aged': i})
    return tid


def check(run):
    quick = run.tier == 'quick'
    B = spec('BuiltinMw.tla')
    run.rule = ('cases = stack (ordered, <= 3 of 9 built-in middlewares; TLC-enumerated) x 16 scenarios x 7 Accept-Encoding classes, '
                'each compared with the same request against the bare scenario application; non-trivial = non-empty stack')
    run.assumptions = ['gzip round trip is decided by the stdlib gzip module (projection)',
                       'GET/POST parameter extractors need a parameter list: GetParamMiddleware([gp]) / PostDataMiddleware([pd])',
                       'profiler without its trigger parameter; cookie middleware with a fixed key']
    r = tlc.run_tlc(B, cfgpath('BuiltinMw_quick.cfg' if quick else 'BuiltinMw_thorough.cfg'), timeout=3000)
    run.add_tlc('BuiltinMw exhaustive', r)
    run.exhaustive = r.complete
    if r.violated:
        run.tlc_violation('BuiltinMw', r)
    e = tlc.run_tlc(B, cfgpath('BuiltinMw_emit.cfg'), workers=1)
    run.add_tlc('BuiltinMw emission (all stacks <= 3)', e)
    stacks = [x['stack'] for x in e.emits]
    singles = [s for s in stacks if len(s) <= 1]
    rest = [s for s in stacks if len(s) > 1]
    rest = tlc.pick(rest, 60 if quick else 586, run.seed)
    base_app = build([])
    base = dict(((s, a), request(base_app, s, a)) for s in SCENARIOS for a in AE_HEADER)
    recs = []
    tid = 0
    for st in singles + rest:
        try:
            app = build(st)
        except Exception as ex:  # noqa
            run.violation('stack-construction-raised:%s' % type(ex).__name__, 'stack %r: %r' % (st, ex), {'leg': 'L2', 'stack': st})
            continue
        for s in SCENARIOS:
            for a in sorted(AE_HEADER):
                resp = request(app, s, a)
                tid += 1
                o = observe(base[(s, a)], resp, st)
                recs.append({'tid': tid, 'ae': a, 'o': o, '_stack': st, '_scen': s, '_escaped': resp.get('escaped')})
    tid = leg_aged_stats(run, base, recs, tid, 150 if quick else 3000)
    acc, rej = tracecheck.validate(run, 'BuiltinMw_Trace', spec('BuiltinMw_Trace.tla'), cfgpath('BuiltinMw_Trace.cfg'), None,
                                   [{k: v for k, v in r_.items() if not k.startswith('_')} for r_ in recs])
    run.traces += len(acc)
    run.evaluations += len(recs)
    run.notes['records'] = {'total': len(recs), 'accepted': len(acc), 'rejected': len(rej), 'stacks': len(singles) + len(rest),
                            'encoded_responses': sum(1 for r_ in recs if r_['o']['encoded'])}
    for r_ in recs:
        if r_['tid'] in acc and r_['_stack']:
            run.nontrivial.add(json.dumps([r_['_stack'], r_['_scen'], r_['ae']]))
    run.sample({k: v for k, v in recs[len(recs) // 2].items()})
    for r_ in recs:
        if r_['tid'] in rej:
            o = r_['o']
            culprit = r_['_stack'][0] if len(r_['_stack']) == 1 else 'stack'
            if '_aged' in r_:
                culprit = 'stats-with-full-reservoirs'
            if o['status'] != o['base_status']:
                sig = 'status-changed:%s->%s:%s:%s' % (o['base_status'], o['status'], r_['_scen'], culprit)
            elif not o['decoded_same']:
                sig = 'body-changed:%s:%s' % (r_['_scen'], culprit)
            else:
                sig = 'gzip-rules:%s' % r_['ae']
            run.violation(sig, 'stack %r scenario %s Accept-Encoding %s: %r' % (r_['_stack'], r_['_scen'], r_['ae'], o),
                          {'leg': 'L2', 'record': r_})
    beyond_property_legs(run, quick)


def beyond_property_legs(run, quick):
    """ParamMw.tla and CacheReval.tla: what the parameter / context / cache middlewares are FOR (no listed property says
    it).  Bound to the code like everything else, but never gating: outcomes go to notes.beyond_property, differences are
    printed as BEYOND-PROPERTY lines, and a failure of these legs themselves is recorded, not raised."""
    out = []
    for modname in ('parammw', 'cachereval'):
        try:
            mod = __import__(modname)
            out.append(mod.leg(run, quick))
        except Exception as e:  # noqa
            out.append({'spec': modname, 'gating': False, 'error': repr(e)[:300]})
            print('BEYOND-PROPERTY: %s leg could not run: %r' % (modname, e))
    run.notes['beyond_property'] = out


def replay(run, path):
    with open(path) as f:
        rp = json.load(f)
    r_ = rp['case']['record']
    if '_aged' in r_:
        class R(object):
            seed = rp.get('seed', 1)
        recs = []
        base_app = build([])
        base = dict(((s, a), request(base_app, s, a)) for s in SCENARIOS for a in ('absent', 'gzip'))
        leg_aged_stats(R(), base, recs, 0, 3000)
        bad = [x for x in recs if x['o']['status'] != x['o']['base_status'] or not x['o']['decoded_same']]
        for x in bad[:3]:
            print('still violates: aged stats request #%d %s: %r' % (x['_aged'], x['_scen'], x['o']))
        return 1 if bad else 0
    base = request(build([]), r_['_scen'], r_['ae'])
    resp = request(build(r_['_stack']), r_['_scen'], r_['ae'])
    o = observe(base, resp, r_['_stack'])
    print(o)
    bad = o['status'] != o['base_status'] or not o['decoded_same']
    return 1 if bad else 0
