# -*- coding: utf-8 -*-
"""Verdict plumbing shared by all property checks: evidence files, replay files,
known findings, exit codes.  See DESIGN.md 2.6."""
import hashlib
import json
import os
import sys
import time

VERIF = os.path.dirname(os.path.dirname(os.path.abspath(__file__)))
# development only (seeded-change campaigns run several checks side by side against scratch worktrees): VERIF_OUT moves
# everything a run writes (evidence, replays, scratch) elsewhere; the registered commands never set it
OUT = os.environ.get('VERIF_OUT') or VERIF
EVID = os.path.join(OUT, 'evidence')
REPLAYS = os.path.join(OUT, 'replays')
WORK = os.path.join(OUT, 'work')
SPEC = os.path.join(VERIF, 'spec')
MC = os.path.join(SPEC, 'mc')
REPO = os.environ.get('VERIF_REPO', '/repo')

for _d in (EVID, REPLAYS, WORK):
    os.makedirs(_d, exist_ok=True)


def load_findings():
    fn = os.path.join(VERIF, 'known_findings.json')
    if not os.path.exists(fn):
        return []
    with open(fn) as f:
        return json.load(f).get('findings', [])


class Run(object):
    """Accumulates what a check covered, violations and known findings."""

    def __init__(self, prop, tier, seed):
        self.prop = prop
        self.tier = tier
        self.seed = seed
        self.t0 = time.time()
        self.states = 0
        self.transitions = 0
        self.traces = 0            # behaviours replayed into / traces validated against the implementation
        self.evaluations = 0
        self.nontrivial = set()
        self.samples = []
        self.violations = []       # (signature, what, replay_obj)
        self.known_hit = {}        # signature -> count
        self.notes = {}
        self.assumptions = []
        self.exhaustive = False
        self.tlc_runs = []
        self.rule = ''
        self.known = [f for f in load_findings()
                      if f.get('property') == prop and f.get('status') == 'known']

    # -- TLC bookkeeping ------------------------------------------------------
    def add_tlc(self, name, res):
        self.states += res.distinct if res.distinct else res.generated
        self.transitions += res.generated
        self.tlc_runs.append({'run': name, 'generated': res.generated, 'distinct': res.distinct,
                              'complete': res.complete, 'depth': res.depth,
                              'wall_s': round(res.wall, 2), 'emits': len(res.emits),
                              'coverage': {k: list(v) for k, v in sorted(res.coverage.items())} or None})

    def tlc_violation(self, name, res):
        """A TLC invariant failing on the *spec* (L1).  This is a design-level violation of
        the property as modelled: reported as a violation with the counterexample."""
        self.violation('L1:%s:%s' % (name, res.violated), 'TLC reports %s violated in %s' % (res.violated, name),
                       {'leg': 'L1', 'tlc_run': name, 'violated': res.violated, 'counterexample': res.cex})

    # -- conformance bookkeeping ---------------------------------------------
    def sample(self, obj, limit=6):
        if len(self.samples) < limit:
            self.samples.append(obj)

    def violation(self, signature, what, replay_obj):
        for k in self.known:
            if k['signature'] == signature:
                self.known_hit[signature] = self.known_hit.get(signature, 0) + 1
                return False
        self.violations.append((signature, what, replay_obj))
        return True

    # -- finish ---------------------------------------------------------------
    def finish(self, level='model_checking'):
        wall = time.time() - self.t0
        for sig, n in sorted(self.known_hit.items()):
            k = [k for k in self.known if k['signature'] == sig][0]
            print('KNOWN-FINDING: property=%s %s [signature=%s, %d case(s) this run]'
                  % (self.prop, k['what'], sig, n))
        cov = {
            'states': int(self.states),
            'transitions': int(self.transitions),
            'traces_validated_against_impl': int(self.traces),
            'evaluations': int(self.evaluations),
            'distinct_nontrivial': len(self.nontrivial),
            'rule': self.rule,
            'samples': self.samples or [{'note': 'no samples recorded'}],
            'exhaustive': bool(self.exhaustive),
            'tlc_runs': self.tlc_runs,
            'known_findings_hit': self.known_hit,
        }
        cov.update(self.notes)
        ev = {
            'property_id': self.prop,
            'tier': self.tier,
            'seed': int(self.seed),
            'level': level,
            'coverage': cov,
            'assumptions': self.assumptions,
            'wall_s': round(wall, 2),
            'violations': len(self.violations),
        }
        with open(os.path.join(EVID, '%s.json' % self.prop), 'w') as f:
            json.dump(ev, f, indent=1, sort_keys=True, default=str)
        if self.violations:
            seen = set()
            for sig, what, obj in self.violations:
                if sig in seen or len(seen) >= 25:
                    continue
                seen.add(sig)
                h = hashlib.sha1(json.dumps([sig, obj], sort_keys=True, default=str).encode()).hexdigest()[:12]
                path = os.path.join(REPLAYS, '%s-%s.json' % (self.prop, h))
                with open(path, 'w') as f:
                    json.dump({'property': self.prop, 'signature': sig, 'what': what,
                               'tier': self.tier, 'seed': self.seed, 'case': obj},
                              f, indent=1, sort_keys=True, default=str)
                print('VIOLATION property=%s replay=%s' % (self.prop, path))
                print('  what: %s' % (what,))
            print('%s %s: %d violation(s), %d distinct signature(s); wall %.1fs'
                  % (self.prop, self.tier, len(self.violations), len(seen), wall))
            return 1
        print('%s %s: OK  states=%d transitions=%d traces=%d evaluations=%d nontrivial=%d wall=%.1fs'
              % (self.prop, self.tier, self.states, self.transitions, self.traces,
                 self.evaluations, len(self.nontrivial), wall))
        return 0


def cfgpath(name):
    return os.path.join(MC, name)


def spec(name):
    return os.path.join(SPEC, name)


def write_cfg(name, text):
    d = os.path.join(WORK, 'cfg')
    os.makedirs(d, exist_ok=True)
    p = os.path.join(d, '%s-%d.cfg' % (name, os.getpid()))
    with open(p, 'w') as f:
        f.write(text)
    return p


def fresh_repo_import():
    """Make sure `import clastic` resolves to REPO's working tree (not a cached copy)."""
    if REPO not in sys.path:
        sys.path.insert(0, REPO)
    import warnings
    warnings.filterwarnings('ignore')
    for m in list(sys.modules):
        if m == 'clastic' or m.startswith('clastic.'):
            del sys.modules[m]
    import clastic  # noqa
    assert os.path.realpath(os.path.dirname(os.path.dirname(clastic.__file__))) == os.path.realpath(REPO), clastic.__file__
    return clastic
