# -*- coding: utf-8 -*-
"""C17 - The basic and JSON renderers accept every endpoint result.

L1  TLC on Render.tla: the decision model (value class x format parameter x Accept class -> permitted
    outcomes) is total, text classes ignore negotiation, JSON is the answer whenever HTML is not asked for.
L2  TLC enumerates every (class, format, Accept) case; for each the harness instantiates the class with
    several concrete values (hand-picked corner cases plus seeded random ones: empty / non-ASCII / large
    text, nested data, sets, datetimes, objects with to_dict / asdict, generators ...), sends the request
    through a real Application whose route uses render_basic, and projects the response (status, label,
    body verbatim?, parses as JSON?, parses back to the original value?, contains an HTML table?).
    The same values go through render_json, render_json_dev, JSONP and streaming renderers.
    TLC judges every record (Render_Trace.tla).
"""
import datetime
import json
import random
import re

import tlc
import tracecheck
from common import spec, cfgpath

ACCEPT = {'absent': None, 'json': 'application/json', 'html': 'text/html', 'htmlq': 'text/html;q=0.9, application/json;q=0.5',
          'star': '*/*', 'xml': 'application/xml'}
NATIVE = ('FlatMap', 'SeqScalars', 'SeqFlatMaps', 'SeqFlatSeqs', 'Nested', 'EmptySeq', 'EmptyMap', 'Tuple', 'NonDictMapping')


class HasToDict(object):
    def to_dict(self):
        return {'from': 'to_dict'}


class HasAsDict(object):
    def asdict(self):
        return {'from': 'asdict'}


class Plain(object):
    pass


def rand_scalar(rng):
    return rng.choice([0, 1, -5, 12345678901, 2.5, -0.125, True, False, None, 'x', u'\xe9☃', '', 'with "quotes" and \\ backslash',
                       '<b>markup</b>', 'a' * 500])


def values_for(cls, rng):
    if cls == 'TextJsonObj':
        return ['{"a": 1}', json.dumps({'k': [1, 2, {'z': None}], u'\xe9': u'☃'}), '{}', json.dumps({'big': 'x' * 5000}),
                json.dumps({'body': '<html><body>embedded markup</body></html>'}), '{"doc": "<!doctype html><html></html>"}']
    if cls == 'TextJsonArr':
        return ['[1, 2, 3]', '[]', json.dumps([{'a': 1}, 'b', None]), json.dumps(['<html>', '<html lang="en">'])]
    if cls == 'BytesJsonObj':
        return [b'{"a": 1}', json.dumps({'k': u'\xe9'}).encode('utf8'), b'[1,2]']
    if cls == 'TextHtml':
        return ['<html><body>x</body></html>', '<!doctype html>\n<html lang="en"><head></head><body>\xe9</body></html>',
                '<!DOCTYPE html PUBLIC "-//W3C//DTD XHTML 1.0 Transitional//EN" "http://www.w3.org/TR/xhtml1/DTD/xhtml1-transitional.dtd">\n<html><body/></html>']
    if cls == 'BytesHtml':
        return [b'<html><body>x</body></html>', b'<!doctype html><html></html>']
    if cls == 'TextPlain':
        return ['hello', u'non-ascii \xe9 ☃', 'x' * 10000, 'line1\nline2', 'almost {json', 'ends with }', '5', 'null']
    if cls == 'BytesPlain':
        return [b'hello', b'\xff\xfe\x00binary', b'0']
    if cls == 'TextEmpty':
        return ['', b'']
    if cls == 'TextBraceNotJson':
        return ['{not json}', '[also not json]', '{"a": }', b'{\xff}']
    if cls == 'TextMismatchedBrackets':
        return ['[2026-10-02 12:00:01] worker restarted {pid=4312}', '{a]', '[1, 2}', b'{"a": 1]', '{' + 'x' * 300 + ']']
    if cls == 'TextJsonPadded':
        return [' {"a": 1}', '{"a": 1}\n', '\n[1]\n']
    if cls == 'Int':
        return [0, 5, -17, 10 ** 30]
    if cls == 'Float':
        return [2.5, -0.0, 1e300]
    if cls == 'Bool':
        return [True, False]
    if cls == 'None':
        return [None]
    if cls == 'PlainObject':
        return [Plain(), object()]
    if cls == 'Generator':
        return ['GEN']
    if cls == 'FlatMap':
        return [{'a': 1, 'b': 'x'}, {u'\xe9': u'☃', 'n': None, 't': True, 'f': 1.5},
                dict(('k%d' % i, rand_scalar(rng)) for i in range(rng.randint(1, 8)))]
    if cls == 'SeqScalars':
        return [[1, 2, 'x'], [None], [rand_scalar(rng) for _ in range(rng.randint(1, 10))],
                (1, 2, 'x'), ('only',)]          # a tuple is a sequence of scalars like a list
    if cls == 'SeqFlatMaps':
        return [[{'a': 1}, {'a': 2}], [{'a': 1, 'b': None}, {'c': 'x'}],
                [dict(('k%d' % j, rand_scalar(rng)) for j in range(3)) for _ in range(rng.randint(1, 5))]]
    if cls == 'SeqFlatSeqs':
        return [[[1, 2], [3, 4]], [['a'], ['b', 'c'], []]]
    if cls == 'Nested':
        return [{'a': {'b': [1, {'c': 2}]}}, [{'a': [1, 2]}, 5], [1, [2, [3, [4, [5, [6]]]]]], {'l': [{'m': {'n': [None]}}]},
                [{'a': 1}, 5, 'x', None]]
    if cls == 'NonDictMapping':
        import collections
        import types
        return [types.MappingProxyType({'a': 1, 'b': 'x'}), collections.UserDict({'k': [1, 2]}), collections.OrderedDict([('z', 1), ('a', 2)]),
                collections.ChainMap({'a': 1}, {'b': 2}), {'outer': types.MappingProxyType({'inner': 1})}]
    if cls == 'EmptySeq':
        return [[]]
    if cls == 'EmptyMap':
        return [{}]
    if cls == 'Tuple':
        return [(1, 2), ('a', (1, 2))]
    if cls == 'WithSet':
        return [{'s': set([1, 2])}, [frozenset(['a'])], [{'a': 1}, set([2])],
                {'mixed': set([1, 'a'])}, [set([None, 2]), frozenset([(1, 2), 'x'])]]       # members that cannot be ordered
    if cls == 'WithDatetime':
        return [{'d': datetime.datetime(2020, 1, 2, 3, 4, 5)}, [datetime.date(2020, 1, 1)], [{'a': 1}, datetime.date(2020, 1, 1), 5]]
    if cls == 'WithToDict':
        return [{'o': HasToDict()}, [HasToDict()]]
    if cls == 'WithAsDict':
        return [{'o': HasAsDict()}]
    if cls == 'WithPlainObject':
        # ... also inside values WITHOUT a tabular shape (when HTML is asked for, the table attempt fails and the JSON
        # fallback has to cope with the unknown object like the plain JSON path does)
        return [{'o': Plain()}, [object(), 1], [{'a': 1}, Plain()], {'rows': [{'a': Plain()}, 5]}, [[1, [Plain()]], 'x']]
    if cls == 'SetValue':
        return [set([1, 2, 3]), frozenset(['x'])]
    if cls == 'BytesInside':
        return [{'b': b'bytes'}, [b'\xff']]
    raise ValueError(cls)


def jsonable_view(v):
    """what JSON-native data looks like after a round trip (tuples become lists, any Mapping becomes an object)"""
    from collections.abc import Mapping

    def plain(x):
        if isinstance(x, Mapping):
            return dict((k, plain(val)) for k, val in x.items())
        if isinstance(x, (list, tuple)):
            return [plain(i) for i in x]
        return x
    return json.loads(json.dumps(plain(v)))


class Holder(object):
    value = None


def _holder_value():
    v = Holder.value
    if v == 'GEN':
        return (i for i in range(3))
    return v


class SharedObj(object):
    """Class docstring of a callable object."""
    def method(self):
        """Bound method, one line."""
        return _holder_value()

    def __call__(self):
        return _holder_value()


def build():
    from clastic import Application, render_basic
    from clastic.render import render_json, render_json_dev, JSONRender, JSONPRender

    def ep():
        v = Holder.value
        if v == 'GEN':
            return (i for i in range(3))
        return v
    # the same endpoint in the Python shapes user code comes in (the HTML table view shows the endpoint's docstring)
    def ep1():
        """One-line docstring."""
        return ep()

    def ep2():
        """First line of a docstring,

        followed by more <b>text</b> & a link http://example.com/x?y=1
        """
        return ep()

    Obj = SharedObj       # a module-level class: the second application binds methods of the SAME class again
    return Application([('/basic', ep, render_basic), ('/basic1', ep1, render_basic), ('/basic2', ep2, render_basic),
                        ('/basic3', Obj().method, render_basic), ('/basic4', Obj(), render_basic),
                        ('/strict', ep, render_json), ('/dev', ep, render_json_dev),
                        ('/stream_dev', ep, JSONRender(streaming=True, dev_mode=True)),
                        ('/stream', ep, JSONRender(streaming=True)),
                        ('/jsonp_dev', ep, JSONPRender(dev_mode=True))])


def fetch(app, path, fmt, acc, extra_q=None):
    from werkzeug.test import create_environ, run_wsgi_app
    qs = []
    if fmt != 'absent':
        qs.append('format=' + fmt)
    if extra_q:
        qs.append(extra_q)
    env = create_environ(path, query_string='&'.join(qs) or None)
    env.pop('HTTP_ACCEPT', None)
    if ACCEPT[acc]:
        env['HTTP_ACCEPT'] = ACCEPT[acc]
    try:
        app_iter, status, headers = run_wsgi_app(app, env)
        body = b''.join(app_iter)
    except Exception as e:  # noqa
        return -1, 'escaped:' + type(e).__name__, b''
    h = dict(headers)
    return int(status.split()[0]), (h.get('Content-Type') or '').split(';')[0].strip(), body


def project(value, cls, status, label, body, jsonp=False):
    raw = value if isinstance(value, bytes) else (value.encode('utf8') if isinstance(value, str) else None)
    verbatim = raw is not None and body == raw
    parses = False
    roundtrip = False
    text = body.decode('utf8', 'replace')
    if jsonp:
        m = re.match(r'^cb\((.*)\);$', text, re.S)
        text = m.group(1) if m else '\x00'
    try:
        parsed = json.loads(text)
        parses = True
        if cls in NATIVE:
            roundtrip = parsed == jsonable_view(value)
    except ValueError:
        pass
    return {'status': status, 'label': label, 'verbatim': verbatim, 'parses': parses, 'roundtrip': roundtrip,
            'has_table': b'<table' in body}


def check(run):
    quick = run.tier == 'quick'
    R = spec('Render.tla')
    run.rule = ('cases = (value class, format parameter, Accept class) enumerated by TLC x concrete values per class (corner cases + '
                'seeded random); JSON renderers: every class x {strict, dev, streaming, JSONP}; non-trivial = distinct (case, value)')
    run.assumptions = ['the classifier value -> class is part of the trusted projection', 'no NaN/Infinity, no non-string keys, no lone '
                       'surrogates', 'brace-delimited text that is not JSON and whitespace-padded JSON may get either label',
                       'scalars / objects: only the 200 is required']
    r = tlc.run_tlc(R, cfgpath('Render_quick.cfg'))
    run.add_tlc('Render decision model', r)
    run.exhaustive = r.complete
    if r.violated:
        run.tlc_violation('Render', r)
    e = tlc.run_tlc(R, cfgpath('Render_emit.cfg'), workers=1)
    run.add_tlc('Render emission (all cases)', e)
    app = build()
    rng = random.Random(run.seed + 17)
    recs = []
    tid = 0
    reps = 1 if quick else 6
    for case in e.emits:
        for _rep in range(reps):
            for vi, v in enumerate(values_for(case['c'], rng)):
                Holder.value = v
                st, label, body = fetch(app, ('/basic', '/basic1', '/basic2', '/basic3', '/basic4')[tid % 5], case['fmt'], case['acc'])
                tid += 1
                o = project(v, case['c'], st, label, body)
                o.update({'tid': tid, 'kind': 'basic', 'c': case['c'], 'fmt': case['fmt'], 'acc': case['acc'], '_v': repr(v)[:200], '_vi': vi})
                recs.append(o)
    classes = sorted(set(c['c'] for c in e.emits))
    for cls in classes:
        for v in values_for(cls, rng):
            for kind, path, q in (('strict', '/strict', None), ('dev', '/dev', None), ('stream_dev', '/stream_dev', None),
                                  ('stream', '/stream', None), ('jsonp_dev', '/jsonp_dev', 'callback=cb')):
                Holder.value = v
                st, label, body = fetch(app, path, 'absent', 'absent', q)
                tid += 1
                o = project(v, cls, st, label, body, jsonp=(kind == 'jsonp_dev'))
                o.update({'tid': tid, 'kind': kind, 'c': cls, 'fmt': 'absent', 'acc': 'absent', '_v': repr(v)[:200], '_vi': 0})
                recs.append(o)
                if type(v) in (dict, list) and cls in ('FlatMap', 'SeqScalars', 'Nested', 'EmptySeq', 'EmptyMap'):
                    # the SAME object again after the application changed it (a module-level counter dict, a growing list):
                    # the response is the value as it is NOW
                    if type(v) is dict:
                        v['changed_since_last_request'] = tid
                    else:
                        v.append(tid)
                    st, label, body = fetch(app, path, 'absent', 'absent', q)
                    tid += 1
                    o = project(v, cls if cls not in ('EmptySeq', 'EmptyMap') else {'EmptySeq': 'SeqScalars', 'EmptyMap': 'FlatMap'}[cls],
                                st, label, body, jsonp=(kind == 'jsonp_dev'))
                    o.update({'tid': tid, 'kind': kind, 'c': o.get('c', cls) if False else (cls if cls not in ('EmptySeq', 'EmptyMap') else {'EmptySeq': 'SeqScalars', 'EmptyMap': 'FlatMap'}[cls]),
                              'fmt': 'absent', 'acc': 'absent', '_v': 'same object, mutated: ' + repr(v)[:160], '_vi': 1})
                    recs.append(o)
    # the same callables can be bound again after they have served requests (inspection must leave nothing on them)
    try:
        app2 = build()
        Holder.value = {'a': 1}
        st2, label2, body2 = fetch(app2, '/basic3', 'html', 'absent')
        if st2 != 200:
            run.violation('second-application-misbehaves', 'an application built from the same endpoint shapes after the first one '
                          'served requests answers %s' % st2, {'leg': 'L2', 'status': st2})
    except Exception as ex:  # noqa
        run.violation('second-application-cannot-be-built:%s' % type(ex).__name__,
                      'building the same application again after requests were served raised %r' % (ex,), {'leg': 'L2'})
    acc, rej = tracecheck.validate(run, 'Render_Trace', spec('Render_Trace.tla'), cfgpath('Render_Trace.cfg'), None,
                                   [{k: v for k, v in r_.items() if not k.startswith('_')} for r_ in recs])
    run.traces += len(acc)
    run.evaluations += len(recs)
    run.notes['records'] = {'total': len(recs), 'accepted': len(acc), 'rejected': len(rej), 'cases': len(e.emits)}
    for r_ in recs:
        if r_['tid'] in acc:
            run.nontrivial.add('%s|%s|%s|%s|%s' % (r_['kind'], r_['c'], r_['fmt'], r_['acc'], r_['_v']))
    run.sample(recs[len(recs) // 3])
    for r_ in recs:
        if r_['tid'] in rej:
            if r_['status'] != 200:
                sig = 'not-200:%s:%s:%s' % (r_['kind'], r_['c'], r_['status'])
            elif r_['kind'] != 'basic':
                sig = 'json-renderer:%s:%s' % (r_['kind'], r_['c'])
            else:
                sig = 'wrong-label-or-body:%s:%s' % (r_['c'], r_['label'])
            run.violation(sig, '%s renderer, value %s (class %s), format=%s, Accept=%s: observed %r'
                          % (r_['kind'], r_['_v'], r_['c'], r_['fmt'], r_['acc'],
                             {k: r_[k] for k in ('status', 'label', 'verbatim', 'parses', 'roundtrip', 'has_table')}),
                          {'leg': 'L2', 'record': r_})


def replay(run, path):
    with open(path) as f:
        rp = json.load(f)
    print(json.dumps(rp['case']['record'], indent=1))
    print('re-run `bin/check C17 quick` to re-evaluate')
    return 1
