# -*- coding: utf-8 -*-
"""Shared builders that turn abstract routing tables / requests from the specs into real
clastic objects, and project real responses back to the abstract observation.
(Used by C06, C07, C08, C10, C11, C12.)"""
import re

MARK = re.compile(r'mk-(\d+)-km')

METHOD_SETS = {'any': None, 'get': ['GET'], 'post': ['POST'], 'getpost': ['GET', 'POST'], 'put': ['PUT']}


def pattern_str(patv, trail=False):
    parts = []
    for e in patv:
        k, v = e['k'], e['v']
        if k == 'lit':
            parts.append(v)
        elif k == 'one':
            parts.append('<%s>' % v)
        elif k == 'opt':
            parts.append('<%s?>' % v)
        elif k == 'many0':
            parts.append('<%s*>' % v)
        elif k == 'many1':
            parts.append('<%s+>' % v)
        else:
            raise ValueError(k)
    s = '/' + '/'.join(parts)
    if trail and not s.endswith('/'):
        s += '/'
    return s


def path_str(pathv, trail=False):
    s = '/' + '/'.join(pathv)
    if trail and not s.endswith('/'):
        s += '/'
    return s


def marker(i):
    return 'mk-%d-km' % i


class ExecLog(object):
    """per-process log of endpoint executions (ids), reset before each request"""
    def __init__(self):
        self.ids = []

    def reset(self):
        self.ids = []


def make_endpoint(rid, beh, log):
    """endpoint with every binding name the catalogues use as optional parameters"""
    from clastic import Response
    from clastic.errors import NotFound, Forbidden, ServiceUnavailable

    kept = {}

    def err(cls, **kw):
        # odd routes raise / return ONE long-lived error object (a module-level constant in user code), even routes a
        # fresh one per request: dispatch must not leave anything behind on it
        if int(rid) % 2 == 0:
            return cls(**kw)
        if 'e' not in kept:
            kept['e'] = cls(**kw)
        return kept['e']

    def ep(request, x=None, r=None, o=None, y=None):
        log.ids.append(rid)
        m = marker(rid)
        if beh == 'answer':
            return Response(m)
        if beh == 'raise4xx':
            raise err(NotFound, detail=m)
        if beh == 'ret4xx':
            return err(Forbidden, detail=m)
        if beh == 'raise5xx':
            raise ServiceUnavailable(detail=m)
        if beh == 'nbraise':
            raise err(NotFound, detail=m, is_breaking=False)
        if beh == 'nbret':
            return err(Forbidden, detail=m, is_breaking=False)
        if beh == 'uncaught':
            raise ValueError(m)
        if beh == 'nonresp':
            return 'plain string, no renderer'
        raise AssertionError(beh)
    ep.__name__ = 'ep_%d_%s' % (rid, beh)
    return ep


def make_route(entry, log, trail=False, **kw):
    from clastic import Route
    methods = entry.get('msv')
    if methods is not None:
        methods = [m for m in methods if m != 'HEAD'] or None
    if not methods:
        # "a route without methods admits every method": no method collection at all, or an empty one of any kind
        methods = {0: None, 1: [], 2: (), 3: set()}[int(entry['id']) % 4]
    if methods:
        # method names are case-insensitive in a route declaration too: spell them differently per route
        spell = {0: str.upper, 1: str.lower, 2: str.title}[int(entry['id']) % 3]
        methods = [spell(m) for m in methods]
    return Route(pattern_str(entry['patv'], trail=entry.get('trail', trail)),
                 make_endpoint(entry['id'], entry['beh'], log), methods=methods, **kw)


def observe(app, log, path, method, headers=None, query_string=None):
    """one request through the WSGI callable; returns the abstract observation"""
    from werkzeug.test import Client
    from werkzeug.wrappers import BaseResponse
    log.reset()
    cl = Client(app, BaseResponse)
    try:
        resp = cl.open(path=path, method=method, headers=headers or {}, query_string=query_string)
    except Exception as e:  # noqa
        return {'status': -1, 'by': 0, 'exec': list(log.ids), 'allow': [], 'has_allow': False,
                'head': method.upper() == 'HEAD', 'escaped': type(e).__name__}
    body = resp.get_data(as_text=True)
    m = MARK.search(body)
    allow = resp.headers.get('Allow')
    return {'status': resp.status_code,
            'by': int(m.group(1)) if m else 0,
            'exec': list(log.ids),
            'allow': sorted(set(a.strip().upper() for a in allow.split(',') if a.strip())) if allow else [],
            'has_allow': allow is not None,
            'head': method.upper() == 'HEAD',
            'location': resp.headers.get('Location')}
