# -*- coding: utf-8 -*-
"""C11 - Binding is non-destructive, applications are isolated, add() is atomic.

L1  TLC on AppHistory.tla: FailureIsNoOp, OthersUntouched, Contiguous (action properties over every
    operation), TablesSound, over all histories within the bound.
L2  TLC-generated histories (construct with an initial list / add Route object, tuple or
    sub-application at an index; operations that fail by unresolved dependency, name conflict or
    invalid pattern at any position) are replayed against real Application and shared Route objects.
    After EVERY operation the harness compares, for EVERY live application, app.routes (identity of
    the unbound Route, full pattern) and the responses to a probe per entry with the tables TLC
    computed; shared Route objects must stay unchanged; a failed operation must raise and a
    successful one must not.
"""
import json

import tlc
from common import spec, cfgpath

KIND_PAT = {'plain': '/x', 'needs': '/y', 'bindv': '/<v>', 'badpat': '/bad//pattern'}
PREFIX = {'p': '/p', 'q': '/q'}


class ResObj(object):
    pass


def methods_of(rid):
    """method restriction of the shared Route objects (a decoration of the harness: the specification's tables do not
    mention methods; the expected answer is the first entry of the spec table that matches the path AND admits the
    method).  Entries given as tuples admit every method."""
    return {'r1': ('GET',), 'r3': ('POST',)}.get(str(rid))       # r1 = /x, r3 = /<v>: both match /x


def make_endpoint(rid, kind):
    from clastic import Response
    from clastic.errors import Forbidden

    def body(request):
        if request.args.get('fail'):
            raise Forbidden('probe: the endpoint of %s refuses' % rid)      # an error response produced BY the endpoint
        return Response('mk-%s-km' % rid)
    if kind == 'needs':
        def ep(request, need):
            return body(request)
    elif kind == 'bindv':
        def ep(request, v):
            return body(request)
    else:
        def ep(request):
            return body(request)
    ep.rid = rid
    return ep


class Replayer(object):
    def __init__(self, kinds):
        from clastic import Route
        from clastic.middleware import Middleware
        self.kinds = kinds
        self.routes = {}
        # every application carries one application-level middleware, shared Route objects of kind 'needs' / 'bindv' a
        # route-level one of another type: binding (successful or failing) must leave app.middlewares alone
        def tag_owner(self, next):
            # every application's OWN instance of this (unique) type runs for the requests it serves - also for routes that
            # came in by embedding another application which has an instance of its own
            resp = next()
            resp.headers['X-Mw-Owner'] = self.owner
            return resp
        self.MwApp = type('MwApp', (Middleware,), {'request': tag_owner, 'owner': '?'})
        self.MwRoute = type('MwRoute', (Middleware,), {})
        self.app_mws = {}
        self.chains = {}
        for rid, kind in kinds.items():
            ms = methods_of(rid)
            rmws = [self.MwRoute()] if kind in ('needs', 'bindv') else []
            if kind == 'bindv':
                rmws = (m for m in rmws)       # any iterable will do for a Route's middlewares - also a one-shot iterator
            self.routes[rid] = Route(KIND_PAT[kind], make_endpoint(rid, kind), methods=list(ms) if ms else None,
                                     middlewares=rmws)
        self.snap = dict((rid, self.snapshot(r)) for rid, r in self.routes.items())
        self.apps = {}
        self.fresh = 100

    @staticmethod
    def snapshot(route):
        return (route.pattern, route.endpoint, route.render, tuple(route.middlewares), tuple(sorted(route.resources)),
                None if route.methods is None else tuple(sorted(route.methods)), route.slash_mode)

    def item_to_entry(self, item, fresh):
        from clastic import SubApplication
        if item['k'] == 'route':
            return self.routes[item['r']]
        if item['k'] == 'tuple':
            return (KIND_PAT[item['kind']], make_endpoint(fresh, item['kind']))
        app = self.apps[item['b']]
        return (PREFIX[item['pfx']], app) if fresh % 2 else SubApplication(PREFIX[item['pfx']], app)

    def step(self, op):
        """perform one operation; returns 'ok' or the exception class name"""
        from clastic import Application
        res = dict((nm, ResObj()) for nm in op['res'])
        try:
            if op['op'] == 'new':
                entries = []
                f = self.fresh
                for it in op['items']:
                    entries.append(self.item_to_entry(it, f))
                    if it['k'] == 'tuple':
                        f += 1
                self.fresh += len(op['items'])
                mws = [self.MwApp()]
                mws[0].owner = str(op['a'])
                app = Application(entries, resources=res, middlewares=mws)
                self.apps[op['a']] = app
                self.app_mws[op['a']] = list(mws)
            else:
                it = op['items'][0]
                entry = self.item_to_entry(it, self.fresh)
                self.fresh += 1
                idx = op['idx']
                if idx == len(self.apps[op['a']].routes) and self.fresh % 2:
                    idx += 3          # "at the end": any index at or beyond the end means append (list.insert semantics)
                self.apps[op['a']].add(entry, index=idx)
            return 'ok', None
        except Exception as e:  # noqa
            return type(e).__name__, e

    def table_of(self, app):
        out = []
        for br in app.routes:
            ep = br.unbound_route.endpoint
            out.append({'rid': getattr(ep, 'rid', '?'), 'pattern': br.pattern})
        return out

    def probe(self, app, path, method='GET'):
        from werkzeug.test import Client
        from werkzeug.wrappers import BaseResponse
        import re
        try:
            resp = Client(app, BaseResponse).open(path, method=method)
        except Exception as e:  # noqa
            return 'escaped:' + type(e).__name__
        m = re.search(r'mk-(\w+)-km', resp.get_data(as_text=True))
        self.last_owner = resp.headers.get('X-Mw-Owner')
        return m.group(1) if m else 'status-%d' % resp.status_code


def exp_pattern(e):
    return ''.join(PREFIX[p] for p in e['pfx']) + KIND_PAT[e['kind']]


def probe_path(e):
    return ''.join(PREFIX[p] for p in e['pfx']) + {'plain': '/x', 'needs': '/y', 'bindv': '/w'}[e['kind']]


def first_match(table, path, method='GET'):
    """first entry of the spec table whose full pattern matches the probe path (patterns are literal
    except the single-segment binding <v>) and whose Route admits the method"""
    seen = False
    for e in table:
        pat = exp_pattern(e)
        ps, qs = pat.strip('/').split('/'), path.strip('/').split('/')
        if len(ps) == len(qs) and all(a == b or a == '<v>' for a, b in zip(ps, qs)):
            ms = methods_of(e['rid'])
            if ms is None or method in ms:
                return str(e['rid'])
            seen = True
    return 'status-405' if seen else 'status-404'


def replay_history(run, rec):
    kinds = rec['kinds']
    R = Replayer(kinds)
    for n, op in enumerate(rec['ops']):
        outcome, exc = R.step(op)
        run.evaluations += 1
        ctx = {'leg': 'L2', 'ops': [{k: v for k, v in o.items() if k != 'view'} for o in rec['ops'][:n + 1]],
               'kinds': kinds, 'step': n, 'outcome': outcome, 'rec': rec}
        if op['ok'] and outcome != 'ok':
            run.violation('operation-raised:%s' % outcome, 'step %d %r raised %r but the spec says it succeeds' % (n, ctx['ops'][-1], exc), ctx)
            return False
        if not op['ok'] and outcome == 'ok':
            run.violation('operation-should-fail', 'step %d %r succeeded but must fail (unresolved / conflict / invalid pattern)'
                          % (n, ctx['ops'][-1]), ctx)
            return False
        if not op['ok'] and op['op'] == 'new' and op['a'] in R.apps and not op['view'][op['a']]['alive']:
            pass
        # every live application: table and behaviour
        for a, v in op['view'].items():
            if not v['alive']:
                continue
            app = R.apps.get(a)
            if app is None:
                run.violation('application-missing', 'application %s should exist' % a, ctx)
                return False
            if [id(m) for m in app.middlewares] != [id(m) for m in R.app_mws.get(a, [])]:
                run.violation('application-middlewares-changed', 'step %d: %s.middlewares is %r, was constructed with %r'
                              % (n, a, app.middlewares, R.app_mws.get(a)), dict(ctx, app=a))
                return False
            # BoundRoute.bound_apps (the chain of applications a route was bound through): ends with the application that
            # holds the bound route and never changes once the bound route exists
            for br in app.routes:
                chain = [id(x) for x in br.bound_apps]
                first = R.chains.setdefault(id(br), (br, chain))
                if chain != first[1] or not chain or chain[-1] != id(app):
                    run.violation('bound-apps-chain-changed', 'step %d: a bound route of %s (%s) has bound_apps %r'
                                  % (n, a, br.pattern, br.bound_apps), dict(ctx, app=a))
                    return False
            obs = R.table_of(app)
            exp = [{'rid': str(e['rid']), 'pattern': exp_pattern(e)} for e in v['table']]
            obs2 = [{'rid': str(o['rid']), 'pattern': o['pattern']} for o in obs]
            if obs2 != exp:
                who = 'same-application' if a == op['a'] else 'other-application'
                what = 'after-failed-operation' if not op['ok'] else 'after-successful-operation'
                run.violation('table-differs:%s:%s' % (who, what),
                              'step %d: routing table of %s is %r, spec says %r' % (n, a, obs2, exp),
                              dict(ctx, app=a, observed=obs2, expected=exp))
                return False
            for e in v['table']:
                p = probe_path(e)
                # an error raised by the endpoint itself (rendered through the bound route's error path) must leave no trace
                R.probe(app, p + '?fail=1', 'GET')
                R.probe(app, p + '?fail=1', 'POST')
                # a method nobody admits first (an ordinary 405 must leave no trace), then the restricted methods
                for method in ('DELETE', 'POST', 'GET'):
                    got = R.probe(app, p, method)
                    want = first_match(v['table'], p, method)
                    if got == want and not got.startswith('status-') and R.last_owner != str(a):
                        run.violation('foreign-middleware-instance', 'step %d: application %s answered %s %r through the middleware '
                                      'instance of application %r' % (n, a, method, p, R.last_owner), dict(ctx, app=a, path=p))
                        return False
                    if got != want:
                        run.violation('probe-differs' if method == 'GET' else 'probe-differs:%s' % method,
                                      'step %d: application %s answers %s %r with %r, spec says %r' % (n, a, method, p, got, want),
                                      dict(ctx, app=a, path=p, method=method, observed=got, expected=want))
                        return False
        for rid, r in R.routes.items():
            if Replayer.snapshot(r) != R.snap[rid]:
                run.violation('shared-route-mutated', 'Route object %s changed after step %d' % (rid, n), ctx)
                return False
    return True


def check(run):
    quick = run.tier == 'quick'
    A = spec('AppHistory.tla')
    run.rule = ('operation histories generated by TLC (3 applications, 3 shared Route objects, tuples, sub-applications, indices, '
                'failing operations); non-trivial = history containing a failing operation or an embedding')
    run.assumptions = ['negative add() indices are outside the model', 'probe matching of literal / single-binding patterns is '
                       'recomputed by the harness from the spec table (first entry whose pattern matches)']
    r = tlc.run_tlc(A, cfgpath('AppHistory_quick.cfg' if quick else 'AppHistory_thorough.cfg'), timeout=3400)
    run.add_tlc('AppHistory exhaustive', r)
    run.exhaustive = r.complete
    if r.violated:
        run.tlc_violation('AppHistory', r)
    e = tlc.run_tlc(A, cfgpath('AppHistory_emit.cfg'), workers=1, simulate=(300 if quick else 6000), depth=9,
                    seed=run.seed + 81, timeout=3400)
    run.add_tlc('AppHistory emission (simulate, 8 operations)', e)
    hists = tlc.pick(e.emits, 400 if quick else 8000, run.seed)
    for n, rec in enumerate(hists):
        ok = replay_history(run, rec)
        if any((not o['ok']) or any(i['k'] == 'sub' for i in o['items']) for o in rec['ops']):
            run.nontrivial.add(json.dumps([{k: v for k, v in o.items() if k != 'view'} for o in rec['ops']], sort_keys=True))
        if ok:
            run.traces += 1
        if n < 2:
            run.sample({'ops': [{k: v for k, v in o.items() if k != 'view'} for o in rec['ops']],
                        'final_view': rec['ops'][-1]['view']})


def replay(run, path):
    with open(path) as f:
        rp = json.load(f)
    class R(object):
        def __init__(self):
            self.v = []
            self.evaluations = 0

        def violation(self, sig, what, d):
            self.v.append((sig, what))
    r = R()
    replay_history(r, rp['case']['rec'])
    for sig, what in r.v:
        print('still violates:', sig, what[:400])
    return 1 if r.v else 0
