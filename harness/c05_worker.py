# -*- coding: utf-8 -*-
"""Worker: enumerates a slice of paths, calls BoundRoute.match_path for every catalogue pattern in
every slash mode, and writes one ndjson record per path (format: Pattern_Trace.tla).
usage: c05_worker.py <job.json>   job: {pats, paths_spec, out, shard, nshards}"""
import itertools
import json
import os
import sys

HERE = os.path.dirname(os.path.abspath(__file__))
sys.path.insert(0, HERE)
import common  # noqa
common.fresh_repo_import()

SIGMA = ['/', 'a', '5', '.', '-', '+', ' ', 'e', u'é']
MODES = ['strict', 'redirect', 'rewrite']


def render(pat):
    parts = []
    for e in pat['els']:
        if e['k'] == 'lit':
            parts.append(''.join(e['v']))
        else:
            t = e['t'] if e['op'] else ''     # "<x>" (no operator) cannot carry a type
            parts.append('<%s%s%s>' % (e['n'], e['op'], t))
    s = '/' + '/'.join(parts)
    if pat['trail'] and not s.endswith('/'):
        s += '/'
    return s


def enc(v):
    if isinstance(v, bool):
        return ['?'] + list(repr(v))
    if isinstance(v, int):
        return ['i'] + list(repr(v))
    if isinstance(v, float):
        return ['f'] + list(repr(v))
    if isinstance(v, str):
        return ['s'] + list(v)
    return ['?'] + list(repr(v))


def conv_entry(seg):
    try:
        i = ['i'] + list(repr(int(seg)))
    except ValueError:
        i = ['E']
    try:
        f = ['f'] + list(repr(float(seg)))
    except ValueError:
        f = ['E']
    return {'s': list(seg), 'i': i, 'f': f}


def bound_routes(pats):
    from clastic import Application, Route

    def ep():
        return None
    out = []
    apps = dict((m, Application([], slash_mode=m)) for m in MODES)
    for pid, pat in enumerate(pats):
        text = render(pat)
        row = {}
        for m in MODES:
            row[m] = Route(text, ep).bind(apps[m])
        out.append((pid + 1, pat, row))
    return out


def observe(pat, br, path):
    try:
        res = br.match_path(path)
    except Exception as e:  # noqa  (the property: "not match instead of raising")
        return {'ok': True, 'b': [{'n': 'RAISED:' + type(e).__name__, 'none': False, 'vals': []}]}
    if res is None:
        return {'ok': False, 'b': []}
    b = []
    for e in pat['els']:
        if e['k'] != 'bind':
            continue
        if e['n'] not in res:
            b.append({'n': 'MISSING:' + e['n'], 'none': False, 'vals': []})
            continue
        v = res[e['n']]
        if e['op'] in ('*', '+'):
            if isinstance(v, list):
                b.append({'n': e['n'], 'none': False, 'vals': [enc(x) for x in v]})
            else:
                b.append({'n': e['n'], 'none': v is None, 'vals': [['?'] + list(repr(v))]})
        else:
            if v is None:
                b.append({'n': e['n'], 'none': True, 'vals': []})
            else:
                b.append({'n': e['n'], 'none': False, 'vals': [enc(v)]})
    extra = set(res) - set(e['n'] for e in pat['els'] if e['k'] == 'bind')
    if extra:
        b.append({'n': 'EXTRA:' + ','.join(sorted(extra)), 'none': False, 'vals': []})
    return {'ok': True, 'b': b}


def paths_iter(spec):
    if spec['kind'] == 'all':
        for n in range(0, spec['maxlen']):
            for tail in itertools.product(SIGMA, repeat=n):
                yield '/' + ''.join(tail)
        # case probes: the short strings again with the letters in upper case ('A', 'E' and U+00C9): a literal segment equals
        # itself and nothing else, '5E5' is a float literal like '5e5'
        for n in range(1, min(spec['maxlen'], 5)):
            for tail in itertools.product(SIGMA, repeat=n):
                t = ''.join(tail)
                u = t.upper()
                if u != t:
                    yield '/' + u
    else:
        for p in spec['paths']:
            yield p


def main():
    with open(sys.argv[1]) as f:
        job = json.load(f)
    routes = bound_routes(job['pats'])
    sel = job.get('pat_subset')
    k = 0
    n = 0
    with open(job['out'], 'w') as out:
        for path in paths_iter(job['paths_spec']):
            k += 1
            if k % job['nshards'] != job['shard']:
                continue
            segs = [s for s in path.split('/') if s]
            obs = []
            for pid, pat, row in routes:
                if sel is not None and pid not in sel and len(path) > job.get('subset_from_len', 99):
                    continue
                for m in MODES:
                    o = observe(pat, row[m], path)
                    o['p'] = pid
                    o['m'] = m
                    obs.append(o)
            rec = {'tid': k, 'path': list(path), 'conv': [conv_entry(s) for s in sorted(set(segs))], 'obs': obs}
            out.write(json.dumps(rec, separators=(',', ':')) + '\n')
            n += 1
    print(n)


if __name__ == '__main__':
    main()
