# -*- coding: utf-8 -*-
"""C13 - An Application is a conforming WSGI application.

L1  TLC on Wsgi.tla (call protocol machine) and WsgiWrap.tla (wrapper partial order).
L3  (main leg for the protocol) every response kind the framework produces x methods x header sets
    is driven through the raw WSGI interface with a recording start_response, a counting iterator
    and a tracked open(); each recorded interaction is validated by TLC against the protocol
    machine (Wsgi_Trace.tla); the same requests are repeated under wsgiref.validate.validator, whose
    assertion becomes an event no behaviour of the specification contains.
L2  TLC enumerates application trees (outer middleware list, embedded sibling applications) with
    wsgi_wrapper middlewares; the harness builds them (constructor and empty-constructor + add()),
    records which wrappers ran in which order, and TLC judges the observation against the
    documented partial order (WsgiWrap_Trace.tla).  RerouteWSGI: the target must receive the
    request's own environ object with every original entry intact and its status / headers / body
    must be relayed verbatim.
"""
import json
import os
import re
import shutil

import common
import tlc
import tracecheck
from common import spec, cfgpath

STATUS_RE = re.compile(r'^[1-5][0-9][0-9] \S.*$')
BAD_HDR = re.compile(r'[\x00-\x1f\x7f]')


class FileProxy(object):
    def __init__(self, f, hid, ev):
        self.__dict__['_f'] = f
        self.__dict__['_hid'] = hid
        self.__dict__['_ev'] = ev
        self.__dict__['_closed'] = False

    def close(self):
        if not self._closed:
            self.__dict__['_closed'] = True
            self._ev.append({'a': 'fclose', 'h': self._hid})
        return self._f.close()

    def __getattr__(self, name):
        return getattr(self._f, name)

    def __iter__(self):
        return iter(self._f)

    def __enter__(self):
        return self

    def __exit__(self, *a):
        self.close()


class Recorder(object):
    def __init__(self):
        self.ev = []
        self.nfiles = 0

    def open(self, *a, **kw):
        f = open(*a, **kw)
        self.nfiles += 1
        self.ev.append({'a': 'open', 'h': self.nfiles})
        return FileProxy(f, self.nfiles, self.ev)


def drive(app, environ):
    """one raw server-side call; returns (events, status, headers, body)"""
    import clastic.static as st
    rec = Recorder()
    ev = rec.ev
    ev.append({'a': 'call', 'm': environ['REQUEST_METHOD']})
    seen = {}

    def start_response(status, headers, exc_info=None):
        ok_s = isinstance(status, str) and bool(STATUS_RE.match(status))
        ok_h = isinstance(headers, list) and all(
            isinstance(h, tuple) and len(h) == 2 and isinstance(h[0], str) and isinstance(h[1], str)
            and not BAD_HDR.search(h[0]) and not BAD_HDR.search(h[1]) for h in headers)
        ev.append({'a': 'start', 'statusOK': ok_s, 'headersOK': ok_h, 'excInfo': exc_info is not None})
        seen['status'] = status
        seen['headers'] = headers

        def write(data):
            ev.append({'a': 'yield', 'n': len(data), 'bytesOK': isinstance(data, bytes)})
        return write
    st.open = rec.open
    body = []
    try:
        try:
            it = app(environ, start_response)
        except Exception as e:  # noqa
            ev.append({'a': 'escaped', 'cls': type(e).__name__})
            return ev, seen.get('status'), seen.get('headers'), b''
        try:
            try:
                for chunk in it:
                    ev.append({'a': 'yield', 'n': len(chunk) if isinstance(chunk, (bytes, str)) else 0,
                               'bytesOK': isinstance(chunk, bytes)})
                    if isinstance(chunk, bytes):
                        body.append(chunk)
            except Exception as e:  # noqa
                ev.append({'a': 'escaped', 'cls': type(e).__name__})
        finally:
            if hasattr(it, 'close'):
                it.close()
        ev.append({'a': 'close'})
    finally:
        try:
            del st.open
        except AttributeError:
            pass
    return ev, seen.get('status'), seen.get('headers'), b''.join(body)


def drive_validated(app, environ):
    """same request under wsgiref.validate; returns None or the assertion text"""
    from wsgiref.validate import validator
    import warnings
    status = {}

    def start_response(s, h, exc_info=None):
        status['s'] = s
        return lambda data: None
    try:
        with warnings.catch_warnings():
            warnings.simplefilter('ignore')
            it = validator(app)(environ, start_response)
            for _chunk in it:
                pass
            it.close()
    except AssertionError as e:
        return 'AssertionError: %s' % (e,)
    except Exception as e:  # noqa
        return '%s: %s' % (type(e).__name__, e)
    return None


def make_static_dir():
    d = os.path.join(common.WORK, 'c13-static-%d' % os.getpid())
    shutil.rmtree(d, ignore_errors=True)
    os.makedirs(os.path.join(d, 'sub'))
    with open(os.path.join(d, 'a.txt'), 'w') as f:
        f.write('hello static\n' * 50)
    with open(os.path.join(d, 'sub', 'bin.dat'), 'wb') as f:
        f.write(bytes(range(256)) * 40)
    with open(os.path.join(d, 'empty'), 'wb') as f:
        pass
    with open(os.path.join(d, 'noext'), 'w') as f:
        f.write('no extension text')
    return d


def target_app(log):
    def target(environ, start_response):
        log.append({'environ_id': id(environ), 'keys': dict((k, environ[k]) for k in environ if isinstance(environ[k], str))})
        start_response('418 I am a teapot', [('X-Target', 'yes'), ('Content-Type', 'text/x-teapot'), ('Content-Length', '6')])
        if environ['REQUEST_METHOD'] == 'HEAD':
            return []
        return [b'tea', b'pot']
    return target


def scenario_app(static_dir, variant, tlog):
    from clastic import Application, Response, POST, RerouteWSGI, render_basic
    from clastic.render import render_json
    from clastic.errors import NotFound, Forbidden, HTTPException, BadRequest, ServiceUnavailable, InternalServerError, BadGateway
    from clastic.static import StaticApplication
    from clastic.meta import MetaApplication
    from clastic.middleware.compress import GzipMiddleware
    from clastic.middleware.client_cache import HTTPCacheMiddleware
    from werkzeug.utils import redirect

    def gen():
        yield b'part one, '
        yield b''
        yield b'part two'
    target = target_app(tlog)

    def raise404():
        raise NotFound('nope')

    def ret403():
        return Forbidden('no')

    def boom():
        raise ValueError(u'boom \xfc')

    def reroute_raise():
        raise RerouteWSGI(target)

    def raise503():
        raise ServiceUnavailable()          # a 5xx raised by application code (no captured exception behind it)

    def raise_bare():
        raise HTTPException('raised, without a code of its own')
    routes = [('/resp', lambda: Response(b'hello world', mimetype='text/plain')),
              ('/empty', lambda: Response(b'')),
              ('/stream', lambda: Response(gen(), mimetype='text/plain')),
              ('/ctx', lambda: {'a': 1, 'b': [1, 2]}, render_basic),
              ('/json', lambda: {'a': [1, 2], 'u': u'\xe9'}, render_json),
              ('/text', lambda: u'plain \xe9 text', render_basic),
              ('/branch/', lambda: Response('branch')),
              ('/dir/<name>/', lambda name: Response('dir')),
              # errors built in unusual but legitimate ways: no status code of its own, a message of the application's
              ('/raise503', raise503), ('/ret500', lambda: InternalServerError()), ('/ret502', lambda: BadGateway('upstream')),
              ('/bare_exc', lambda: HTTPException('an error without a code of its own')),
              ('/raise_bare_exc', raise_bare),
              ('/own_message', lambda: BadRequest('detail', message=u'Please try again \u2603')),
              ('/redir', lambda: redirect('/resp')),
              ('/raise404', raise404), ('/ret403', ret403), ('/boom', boom),
              ('/nonresp', lambda: 'just a string'),
              POST('/post', lambda: Response('posted')),
              ('/item/<n:int>', lambda n: Response('item %d' % n)),
              ('/ratio/<r:float>/<ns*int>', lambda r, ns: Response('ratio')),
              ('/static', StaticApplication(static_dir)),
              ('/_meta', MetaApplication()),
              ('/reroute', RerouteWSGI(target)),
              ('/reroute_raise', reroute_raise)]
    kw = {}
    if variant == 'debug':
        kw['debug'] = True
    if variant == 'gzipcache':
        kw['middlewares'] = [GzipMiddleware(), HTTPCacheMiddleware(max_age=30)]
    return Application(routes, **kw)


PATHS = ['/resp', '/empty', '/stream', '/ctx', '/ctx?format=json', '/json', '/text', '/branch/', '/branch', '/redir', '/raise404',
         '/ret403', '/boom', '/nonresp', '/post', '/static/a.txt', '/static/sub/bin.dat', '/static/empty', '/static/noext',
         '/static/missing', '/static/../x', '/_meta/', '/_meta/json/', '/reroute', '/reroute_raise', '/unknown/url', '/',
         # slash redirects whose Location has to carry unusual decoded characters (header values must stay valid)
         '/dir/plain', '/dir/a%20b', '/dir/%01x', '/dir/x%7Fy', '/dir/caf%C3%A9', '/dir/q%3Fr%23s', '/branch?x=%0Ay', '/branch?RAWQ', '/dir/x?RAWQ',
         '/bare_exc', '/raise_bare_exc', '/own_message', '/raise503', '/ret500', '/ret502',
         '/item/5', '/item/+ 5', '/item/abc', '/ratio/- .5/1/+ 2', '/ratio/1e5/1/2', '/item/' + '9' * 5000]
HEADERS = [{}, {'Accept': 'text/html'}, {'Accept': 'application/json'}, {'Accept-Encoding': 'gzip'},
           {'Accept': 'application/xml', 'Accept-Encoding': 'gzip, deflate'}]
METHODS = ['GET', 'HEAD', 'POST', 'OPTIONS']


def leg_protocol(run, quick):
    from werkzeug.test import create_environ
    from werkzeug.http import http_date
    import time as _t
    sd = make_static_dir()
    traces = []
    meta = {}
    tid = 0
    nval = 0
    try:
        for variant in ('plain', 'debug', 'gzipcache'):
            tlog = []
            app = scenario_app(sd, variant, tlog)
            hsets = list(HEADERS)
            hsets.append({'If-Modified-Since': http_date(_t.time() + 3600)})
            for path in PATHS:
                for m in METHODS:
                    for hs in (hsets if not quick else hsets[::2] + [hsets[-1]]):
                        p, _, q = path.partition('?')
                        env = create_environ(p, method=m, headers=hs, query_string=(q if q != 'RAWQ' else None) or None,
                                             data=b'x=1' if m == 'POST' else None)
                        if q == 'RAWQ':       # raw (not percent-encoded) UTF-8 bytes in the query, as servers hand them over
                            env['QUERY_STRING'] = u'q=caf\xe9\u2603'.encode('utf8').decode('latin1')
                        ev, status, headers, body = drive(app, env)
                        tid += 1
                        traces.append({'tid': tid, 'reraise': False, 'ev': [dict({'m': '-', 'statusOK': True, 'headersOK': True, 'excInfo': False,
                                                                'n': 0, 'h': 0, 'bytesOK': True}, **e) for e in ev]})
                        meta[tid] = {'variant': variant, 'path': path, 'method': m, 'headers': hs, 'status': status}
                        # content-length agreement (a server would truncate / hang otherwise)
                        if headers:
                            cl = [v for k, v in headers if k.lower() == 'content-length']
                            if cl and m != 'HEAD' and status and not status.startswith(('304', '204')):
                                if int(cl[0]) != len(body):
                                    run.violation('content-length-mismatch', '%s %s: Content-Length %s but %d body bytes'
                                                  % (m, path, cl[0], len(body)), dict(meta[tid], leg='L3'))
                        env2 = create_environ(p, method=m, headers=hs, query_string=(q if q != 'RAWQ' else None) or None,
                                              data=b'x=1' if m == 'POST' else None)
                        if q == 'RAWQ':
                            env2['QUERY_STRING'] = u'q=caf\xe9\u2603'.encode('utf8').decode('latin1')
                        for k_ in ('HTTP_CONTENT_LENGTH', 'HTTP_CONTENT_TYPE'):
                            env2.pop(k_, None)       # artefact of werkzeug.test.create_environ, not of the application
                        err = drive_validated(app, env2)
                        nval += 1
                        run.evaluations += 2
                        if err:
                            tid += 1
                            traces.append({'tid': tid, 'reraise': False, 'ev': [{'a': 'validator_error', 'm': '-', 'statusOK': True,
                                                              'headersOK': True, 'excInfo': False, 'n': 0, 'h': 0, 'bytesOK': True}]})
                            meta[tid] = {'variant': variant, 'path': path, 'method': m, 'headers': hs, 'validator': err}
    finally:
        shutil.rmtree(sd, ignore_errors=True)
    acc, rej = tracecheck.validate(run, 'Wsgi_Trace', spec('Wsgi_Trace.tla'), cfgpath('Wsgi_Trace.cfg'),
                                   cfgpath('Wsgi_Trace_diag.cfg'), traces)
    run.traces += len(acc)
    run.notes['protocol_traces'] = {'recorded': len(traces), 'accepted': len(acc), 'rejected': len(rej),
                                    'validator_runs': nval}
    for t in acc:
        run.nontrivial.add('proto:%s:%s:%s' % (meta[t]['variant'], meta[t]['path'], meta[t]['method']))
    by = dict((t['tid'], t) for t in traces)
    run.sample({'protocol_trace': {'request': meta[1], 'events': by[1]['ev']}})
    for t, pref in sorted(rej.items()):
        tr = by[t]
        e = tr['ev'][pref] if 0 <= pref < len(tr['ev']) else {'a': 'did-not-end-closed'}
        m = meta[t]
        if e['a'] == 'validator_error':
            sig = 'wsgiref-validator:' + re.sub(r'[^A-Za-z ]', '', m['validator'])[:60].strip()
        elif e['a'] == 'yield' and m['method'] == 'HEAD':
            sig = 'head-with-body'
        elif e['a'] == 'escaped':
            sig = 'exception-escaped:%s' % e.get('cls')
        elif e['a'] == 'close':
            sig = 'file-not-released-on-close'
        else:
            sig = 'protocol:%s' % e['a']
        run.violation(sig, '%s %s (%s app): WSGI interaction rejected at event %d %r' % (m['method'], m['path'], m['variant'], pref, e),
                      {'leg': 'L3', 'request': m, 'events': tr['ev'], 'rejected_at': pref})


# ---------------------------------------------------------------------------------- wrappers
def leg_wrappers(run, quick):
    from clastic import Application, Response
    from clastic.middleware import Middleware
    from werkzeug.test import create_environ, run_wsgi_app
    e = tlc.run_tlc(spec('WsgiWrap.tla'), cfgpath('WsgiWrap_emit.cfg'), workers=1)
    run.add_tlc('WsgiWrap emission (all trees: outer list <= 2, <= 2 embedded applications)', e)
    trees = tlc.pick(e.emits, 1200 if quick else 6000, run.seed)
    order = []
    classes = {}

    def cls_for(t):
        if t not in classes:
            attrs = {}
            if t == 'W3':
                attrs['unique'] = False        # a non-unique middleware type carrying a wsgi_wrapper
            if t.startswith('W'):
                def wrapper(self, wsgi_app, t=t):
                    def wrapped(environ, start_response):
                        order.append(t)
                        return wsgi_app(environ, start_response)
                    return wrapped
                attrs['wsgi_wrapper'] = wrapper
            base_cls = cls_for('W1') if t == 'W2' else Middleware      # W2 is a SUBCLASS of W1: still its own type
            classes[t] = type('Mw' + t, (base_cls,), attrs)
        return classes[t]
    recs = []
    tid = 0
    for n, tr in enumerate(trees):
        for mode in ('ctor', 'add', 'nested'):
            subs = []
            if mode == 'nested':
                # the same lists read as a CHAIN: subs[1] is embedded in subs[0], which is embedded in the outer application
                if len(tr['subs']) < 2:
                    continue
                inner = None
                for k in range(len(tr['subs']) - 1, -1, -1):
                    ent = [('/r', lambda: Response('sub'))] + ([('/n', inner)] if inner is not None else [])
                    try:
                        inner = Application(ent, middlewares=[cls_for(t)() for t in tr['subs'][k]])
                    except Exception as ex:  # noqa
                        inner = ex
                        break
                if isinstance(inner, Exception):
                    run.violation('wrapper-tree-construction-raised:%s' % type(inner).__name__, 'chain %r: %r' % (tr, inner),
                                  {'leg': 'L2', 'tree': tr})
                    continue
                subs = [inner]
            else:
                for k, lst in enumerate(tr['subs']):
                    subs.append(Application([('/r', lambda: Response('sub'))], middlewares=[cls_for(t)() for t in lst]))
            entries = [('/own', lambda: Response('own'))] + [('/s%d' % k, s) for k, s in enumerate(subs)]
            try:
                if mode in ('ctor', 'nested'):
                    app = Application(entries, middlewares=[cls_for(t)() for t in tr['outer']])
                    exp_subs = tr['subs']
                else:
                    if subs:
                        continue       # embedding after construction: wrappers of the embedded application are not decided here
                    app = Application([], middlewares=[cls_for(t)() for t in tr['outer']])
                    app.add(entries[0])
                    exp_subs = []
            except Exception as ex:  # noqa
                run.violation('wrapper-tree-construction-raised:%s' % type(ex).__name__, 'tree %r: %r' % (tr, ex),
                              {'leg': 'L2', 'tree': tr})
                continue
            paths = ['/own'] + ['/s%d/r' % k for k in range(len(subs))] + ['/nowhere']
            if mode == 'nested':
                paths += ['/s0' + '/n' * d + '/r' for d in range(1, len(tr['subs']))]
            for path in paths:
                del order[:]
                run_wsgi_app(app, create_environ(path))
                tid += 1
                run.evaluations += 1
                recs.append({'tid': tid, 'outer': tr['outer'], 'subs': exp_subs, 'nested': mode == 'nested', 'observed': list(order),
                             '_mode': mode, '_path': path})
    acc, rej = tracecheck.validate(run, 'WsgiWrap_Trace', spec('WsgiWrap_Trace.tla'), cfgpath('WsgiWrap_Trace.cfg'), None,
                                   [{k: v for k, v in r.items() if not k.startswith('_')} for r in recs])
    run.traces += len(acc)
    run.notes['wrapper_records'] = {'recorded': len(recs), 'accepted': len(acc), 'rejected': len(rej)}
    for r in recs:
        if r['tid'] in acc and len(r['observed']) >= 2:
            run.nontrivial.add('wrap:%s' % json.dumps([r['outer'], r['subs']]))
        if r['tid'] in rej:
            if not r['observed'] and (r['outer'] or r['subs']):
                sig = 'wrappers-not-applied:%s' % r['_mode']
            else:
                sig = 'wrapper-order-or-multiplicity'
            run.violation(sig, 'tree outer=%r subs=%r (%s, %s): wrappers ran as %r' % (r['outer'], r['subs'], r['_mode'], r['_path'], r['observed']),
                          {'leg': 'L2', 'record': r})
    if recs:
        run.sample({'wrapper_record': recs[len(recs) // 2]})


# ---------------------------------------------------------------------------------- reroute
def leg_reroute(run):
    from clastic import Application, RerouteWSGI, Response
    from werkzeug.test import create_environ
    tlog = []
    targets = {'teapot': ('418 I am a teapot', [('X-Target', 'yes'), ('Content-Type', 'text/x-teapot'), ('Content-Length', '6')], [b'tea', b'pot']),
               'relredirect': ('302 Found', [('Location', 'relative/path?x=1'), ('Content-Length', '0')], []),
               'notmodified': ('304 Not Modified', [('ETag', '"abc"'), ('Content-Type', 'text/plain'), ('Content-Length', '123'), ('X-Entity', 'kept')], []),
               'dupheaders': ('200 Custom Reason', [('Set-Cookie', 'a=1'), ('Set-Cookie', 'b=2'), ('Content-Type', 'text/plain')], [b'x'])}

    def make_target(name):
        status_, headers_, body_ = targets[name]

        def target(environ, start_response):
            tlog.append({'environ_id': id(environ), 'keys': dict((k, environ[k]) for k in environ if isinstance(environ[k], str))})
            start_response(status_, list(headers_))
            return [] if environ['REQUEST_METHOD'] == 'HEAD' else list(body_)
        return target
    # WSGI callables come in many shapes: a function with unconventional parameter names, a callable object, a partial, a
    # validator-wrapped application
    import functools
    from wsgiref.validate import validator

    def shape(t, k):
        if k == 0:
            return t
        if k == 1:
            return lambda env, sr: t(env, sr)
        if k == 2:
            class Obj(object):
                def __call__(self, e, s_):
                    return t(e, s_)
            return Obj()
        return functools.partial(lambda extra, environ, start_response: t(environ, start_response), 'x')
    routes = []
    for name in targets:
        t = shape(make_target(name), sorted(targets).index(name) % 4)
        try:
            routes.append(('/as_endpoint/%s/<p*>' % name, RerouteWSGI(t)))
        except Exception as ex:  # noqa  (any WSGI callable is a legitimate target)
            run.violation('reroute-target-rejected:%s' % type(ex).__name__, 'RerouteWSGI(%r) raised %r' % (t, ex),
                          {'leg': 'L2', 'target': name})
            t = make_target(name)
            routes.append(('/as_endpoint/%s/<p*>' % name, RerouteWSGI(t)))

        def raiser(t=t):
            raise RerouteWSGI(t)
        routes.append(('/raised/%s' % name, raiser))
    for name in targets:
        def raiser2(t=make_target(name)):
            raise RerouteWSGI(t)
        routes.append(('/branchy/%s/' % name, raiser2))          # a BRANCH route that re-routes
    apps = {'redirect': Application(routes + [('/x', lambda: Response('x'))]),
            'rewrite': Application(routes + [('/x', lambda: Response('x'))], slash_mode='rewrite')}
    cases = []
    for name in targets:
        for path in ('/as_endpoint/%s/a/b' % name, '/raised/%s' % name, '/as_endpoint/%s/' % name, '/branchy/%s/' % name):
            cases.append(('redirect', name, path))
        # rewrite mode executes a branch route for the path WITHOUT its trailing slash: the target must still see the
        # request as it came in
        for path in ('/branchy/%s' % name, '/branchy//%s' % name, '/branchy/%s/' % name, '/raised/%s' % name):
            cases.append(('rewrite', name, path))
    for amode, name, path in cases:
        app = apps[amode]
        status_, headers_, body_ = targets[name]
        if True:
            for m in ('GET', 'POST', 'HEAD'):
                env = create_environ(path, method=m, headers={'X-Custom': 'v', 'Cookie': 'a=b'}, query_string='q=1')
                before = dict((k, env[k]) for k in env if isinstance(env[k], str))
                del tlog[:]
                ev, status, headers, body = drive(app, env)
                run.evaluations += 1
                ctx = {'leg': 'L2', 'path': path, 'method': m, 'target': name}
                if not tlog:
                    run.violation('reroute-target-not-called', '%s %s' % (m, path), ctx)
                    continue
                t = tlog[-1]
                if t['environ_id'] != id(env):
                    run.violation('reroute-different-environ-object', '%s %s: target received another environ object' % (m, path), ctx)
                changed = [k for k in before if t['keys'].get(k) != before[k]]
                if changed:
                    run.violation('reroute-environ-entries-changed', '%s %s: entries changed %r' % (m, path, changed), ctx)
                want_body = b'' if m == 'HEAD' else b''.join(body_)
                if status != status_ or headers != list(headers_) or body != want_body:
                    run.violation('reroute-response-not-verbatim:%s' % name, '%s %s: relayed %r %r %r, target sent %r %r'
                                  % (m, path, status, headers, body, status_, headers_), ctx)
                else:
                    run.traces += 1
                    run.nontrivial.add('reroute:%s:%s' % (path, m))


def leg_repo_suite(run):
    """traces of the repository's OWN test-suite: every request any test sends through an Application is recorded by a
    pytest plugin that lives in /verif (harness/record_plugin.py) and validated against the protocol machine"""
    import subprocess
    import sys
    out = os.path.join(common.WORK, 'reposuite-%d.ndjson' % os.getpid())
    env = dict(os.environ, VERIF_RECORD_OUT=out, PYTHONPATH=os.path.dirname(os.path.abspath(__file__)) + os.pathsep + common.REPO,
               PYTHONWARNINGS='ignore')
    p = subprocess.run([sys.executable, '-m', 'pytest', '-q', '-p', 'no:cacheprovider', '-p', 'record_plugin', '-x'],
                       cwd=common.REPO, env=env, stdout=subprocess.PIPE, stderr=subprocess.STDOUT, timeout=900)
    tail = p.stdout.decode('utf8', 'replace').strip().splitlines()[-1:] or ['']
    run.notes['repo_suite'] = {'pytest': tail[0][:200]}
    if not os.path.exists(out):
        run.notes['repo_suite']['skipped'] = 'no trace file produced'
        return
    traces = []
    with open(out) as f:
        for n, line in enumerate(f, 1):
            t = json.loads(line)
            traces.append({'tid': n, 'reraise': bool(t['reraise']), '_test': t['test'], '_path': t['path'],
                           'ev': [dict({'m': '-', 'statusOK': True, 'headersOK': True, 'excInfo': False, 'n': 0, 'h': 0,
                                        'bytesOK': True}, **{k: v for k, v in e.items() if k != 'cls'}) for e in t['ev']]})
    os.remove(out)
    acc, rej = tracecheck.validate(run, 'Wsgi_Trace(repo suite)', spec('Wsgi_Trace.tla'), cfgpath('Wsgi_Trace_prefix.cfg'),
                                   cfgpath('Wsgi_Trace_diag.cfg'), [{k: v for k, v in t.items() if not k.startswith('_')} for t in traces])
    run.traces += len(acc)
    run.evaluations += len(traces)
    run.notes['repo_suite'].update({'requests_recorded': len(traces), 'accepted': len(acc), 'rejected': len(rej)})
    by = dict((t['tid'], t) for t in traces)
    for t, pref in sorted(rej.items()):
        tr = by[t]
        e = tr['ev'][pref] if 0 <= pref < len(tr['ev']) else None
        run.violation('repo-suite-trace:%s' % (e['a'] if e else 'incomplete'),
                      'request %s made by %s: WSGI interaction rejected at event %s %r' % (tr['_path'], tr['_test'], pref, e),
                      {'leg': 'L3', 'test': tr['_test'], 'path': tr['_path'], 'events': tr['ev']})


def check(run):
    quick = run.tier == 'quick'
    run.rule = ('protocol: every scenario path (27) x 4 methods x header sets x 3 application variants, each recorded interaction '
                'validated by TLC; wrappers: every application tree with <= 2 outer middlewares and <= 2 embedded applications; '
                'non-trivial = distinct (variant, path, method) accepted trace, tree with >= 2 wrappers, reroute case')
    run.assumptions = ['wsgiref.validate is the conformance oracle for environ/headers details beyond the protocol machine',
                       'wrappers of applications embedded AFTER construction (add) are not decided',
                       'sibling embedded applications are mutually unordered']
    for name, mod, cfg in (('Wsgi protocol machine', 'Wsgi.tla', 'Wsgi_quick.cfg'), ('WsgiWrap partial order', 'WsgiWrap.tla', 'WsgiWrap_quick.cfg')):
        r = tlc.run_tlc(spec(mod), cfgpath(cfg), timeout=1200)
        run.add_tlc(name, r)
        if r.violated:
            run.tlc_violation(name, r)
    run.exhaustive = True
    leg_protocol(run, quick)
    leg_wrappers(run, quick)
    leg_reroute(run)
    leg_repo_suite(run)


def replay(run, path):
    with open(path) as f:
        rp = json.load(f)
    print(json.dumps(rp['case'], indent=1)[:3000])
    print('re-run `bin/check C13 quick` to re-evaluate (requests are deterministic)')
    return 1
