# -*- coding: utf-8 -*-
"""Regenerates /verif/MANIFEST.json from the table below (kept valid at all times)."""
import json
import os

VERIF = os.path.dirname(os.path.dirname(os.path.abspath(__file__)))

# id -> dict(text, note, technique, design_ref)   (only properties with a working check)
CHECKS = {}
# id -> reason (properties not claimed yet / not applicable)
NOT_APPLICABLE = {}

FIX_COMMITS = []   # hooks: none (see DESIGN 2.9)


def claim(pid, text, note, technique, ref):
    CHECKS[pid] = dict(text=text, note=note, technique=technique, ref=ref)


claim('C07',
      'TLC model-checks Slash.tla: a two-step client behaviour (request; follow the Location) over every path shape (<= 3 segments, '
      'slash runs 1-2, trailing 0-2), slash-mode inheritance (application / route / inherit flag), 7 route kinds (root, static, '
      'single, multi x branch/leaf) and methods; invariants CanonIdempotent, RedirectOnlyWhen, NeverInStrictOrRewrite, OneHop, '
      'QueryUnchanged, RewriteExecutes. Bound to the code at the WSGI level (PATH_INFO = decoded path, QUERY_STRING raw): '
      'TLC-generated behaviours are replayed with segment ids instantiated from 21 URL-significant texts (? # % %41 space ; & = + '
      'quotes non-ASCII), the Location is parsed/unquoted and followed; random longer exchanges are recorded and judged by TLC (Slash_Trace).',
      'Trusted: TLC; urllib.parse for splitting/unquoting the Location; query equality at the WSGI level; the request layer '
      '(werkzeug Request.path) collapses the leading slash run, modelled as Seen().',
      'TLA+ spec (Slash.tla) + TLC exhaustive + two-step replay of TLC behaviours + record validation (Slash_Trace.tla)',
      'DESIGN.md 3/C07')

claim('C08',
      'TLC model-checks ErrPipe.tla, the error pipeline of Application.dispatch as a state machine (execute, non-Response check, '
      'caught / uncaught_to_response / reraise, breaking vs non-breaking, catch-all, render_error, default fallback) over histories of '
      'requests against one application (3 handler kinds x 4 render_error kinds; 8 behaviours x 8 positions): Total, '
      'EscapeOnlyIfReraise, HistoryFree, HttpKeepsStatus, NoStuck, ConfigImmutable. Bound to the code: every single-request history '
      '(exhaustive) and simulated histories of 6 are replayed at the WSGI level against ONE real application per history, instantiated '
      'from palettes (18 exception kinds incl. non-ASCII / 200 kB / unprintable, every exported HTTPException class raised/returned, '
      'breaking/non-breaking, 8 non-Response values, Accept headers, methods); each outcome (complete response + status, or the '
      'original exception object for the re-raising handler) must be the one TLC computed.',
      'Trusted: TLC; werkzeug run_wsgi_app for driving the WSGI callable; BaseException subclasses outside the quantifier; '
      'render_error returning another error may yield either status.',
      'TLA+ spec (ErrPipe.tla) + TLC exhaustive/simulation + WSGI-level replay of TLC-generated request histories',
      'DESIGN.md 3/C08')

claim('C09',
      'ErrorFmt.tla holds the standard status table (typed from the HTTP registry), the content-negotiation rule over the four formats '
      '(q of the most specific matching client range; q=0 unacceptable; maximal q wins, ties open; plain text iff nothing acceptable; '
      'absent header = anything) and the definition of a conforming body on its projection (well formed, fields present as data where '
      'required, no markup originating from dynamic text). TLC checks the rule (total, text iff nothing acceptable, never unacceptable, '
      'exact beats wildcard) over all Accept sequences within the bound and enumerates them for the conformance leg. Real error responses '
      '- every TLC-enumerated Accept sequence, every exported error class raised/returned/with overridden code, a 15-string hostile palette '
      'in detail/message/error_type, default and debug handlers incl. exception text, locals and request paths - are projected with '
      'json / expat / html.parser and TLC judges every record (StatusOK, FormatOK, BodyOK; ErrorFmt_Trace).',
      'Trusted: TLC; the stdlib parsers; markup injection is recognised by a unique marker in element/attribute/comment names; field presence '
      'is required of JSON bodies only (as the property states); XML only for XML-1.0-representable text.',
      'TLA+ spec (ErrorFmt.tla) + TLC + record validation of projected real responses (ErrorFmt_Trace.tla); escaping clauses are projection-decided',
      'DESIGN.md 3/C09')

claim('C10',
      'Embed.tla defines Flatten for chains of up to three applications (prefixes, merged middlewares, resources, slash mode with '
      'inherit_slashes, renderer resolution with render factories / rebind_render / explicit callables, error handling) as a '
      'transcription of SubApplication.bind_all + BoundRoute re-binding, and DEFINES nested behaviour as first-match dispatch over the '
      'flattened table. TLC checks algebraic facts of Flatten (no loss/duplication, order, outer handler, outer middlewares first, '
      'unique once, explicit render wins, slash inheritance); the same application object may also be mounted into an unrelated parent '
      'before/after (reuse) without effect on the chain. Bound to the code: TLC-generated trees are built as real NESTED '
      'applications and - from TLC\'s flat record - as real FLAT applications; per flat route two slash probes and a failing request '
      'are sent to both and compared with the spec (status, answering route, middleware trace, resource values, renderer, error handler) '
      'and app.routes patterns are compared with the flattened table.',
      'Trusted: TLC; tag extraction from bodies; a resource defined only by two inner levels is not compared; middleware types unique+reorderable here.',
      'TLA+ spec (Embed.tla) + TLC exhaustive/simulation + differential replay (nested vs TLC-flattened vs spec)',
      'DESIGN.md 3/C10')

claim('C11',
      'TLC model-checks AppHistory.tla: a world of applications and shared Route objects under histories of operations (constructor '
      'with an initial list, add of a Route object / tuple / sub-application at an index; failing operations: unresolved dependency, '
      'name conflict, invalid pattern, at any position of a multi-route entry): action properties FailureIsNoOp, OthersUntouched, '
      'Contiguous and invariant TablesSound over all histories within the bound. Bound to the code: TLC-generated histories of 8 '
      'operations over 3 applications are replayed against real objects; after EVERY operation, for EVERY live application, '
      'app.routes (Route identity + full pattern) and a probe response per entry are compared with the tables TLC computed; '
      'shared Route objects (method-restricted, with route-level middlewares) are snapshotted and must not change, probes use DELETE / '
      'POST / GET (a 405 must leave no trace), app.middlewares and every BoundRoute.bound_apps chain must stay what they were; failing '
      'operations must raise, others must not.',
      'Trusted: TLC; probe matching of literal/single-binding patterns recomputed from the spec table; negative indices excluded.',
      'TLA+ spec (AppHistory.tla) + TLC exhaustive (action properties) + step-by-step replay of TLC-generated histories',
      'DESIGN.md 3/C11')

claim('C12',
      'Threads.tla (PlusCal) models N request threads executing the per-request program as labelled atomic steps over process-local '
      'variables, sharing only the request-id counter and the immutable application; TLC proves NonInterference and UniqueIds over ALL '
      'interleavings of 3-4 threads, and refutes each of three deliberately hazardous variants (value cached on the shared route / error '
      'handler, non-atomic counter) - reported per run. Bound to the code by trace validation of real multi-threaded executions against '
      'ONE Application under a deterministic scheduler whose switch points are sys.settrace line events inside clastic/* and the '
      'sinter-generated code: every single-preemption schedule of ordered scenario pairs (success, 404, 405, non-breaking fall-through, '
      'uncaught exception, redirect; request-derived provides, the built-in GetParamMiddleware), the same on FRESH applications (first '
      'requests ever served), seeded random multi-preemption schedules of 3-4 threads (also over two applications in one process), '
      'behaviours of Threads.tla generated by TLC and replayed at label granularity (k-th label step = k-th segment of the thread), and '
      'free-running stress (8 threads, 1 us switch interval); each recorded execution is validated by TLC (Threads_Trace).',
      'Trusted: TLC; the scheduler (one worker runs at a time, so the log order is the execution order); interleavings inside C code are '
      'atomic under the GIL; free-threaded builds out of scope.',
      'PlusCal/TLA+ spec (Threads.tla) + TLC over all interleavings + trace validation of scheduler-controlled real thread executions',
      'DESIGN.md 3/C12')

claim('C13',
      'Wsgi.tla is the WSGI call protocol as a state machine (Call, StartResponse with the exc_info rule, Yield, OpenFile/CloseFile, '
      'Close; invariants StartedBeforeBody, StartBeforeBytes, HeadNoBody, FilesReleasedOnClose, ClosedMeansStarted) and WsgiWrap.tla '
      'the documented partial order of wsgi_wrapper middlewares over application trees; both model-checked by TLC. Bound to the code '
      'by trace validation: every response kind (Responses incl. streamed, rendered contexts, static files incl. missing/escaping, '
      'redirects, 404/405/500, debug pages, meta pages, gzip/cache-processed, RerouteWSGI raised/as endpoint) x GET/HEAD/POST/OPTIONS x '
      'header sets x 3 application variants is driven through the raw WSGI interface with a recording start_response, counting iterator '
      'and tracked open(); TLC validates each recorded interaction against the protocol machine (Wsgi_Trace); the same requests run under '
      'wsgiref.validate. TLC-enumerated application trees are built (constructor and empty constructor + add) and the observed wrapper '
      'order is judged by TLC (WsgiWrap_Trace), for sibling embeddings and for nested chains (OrderOKChain); RerouteWSGI (targets of '
      'several callable shapes, branch routes in rewrite mode) is checked for environ identity, intact entries and verbatim relay.',
      'Trusted: TLC; wsgiref.validate; the recording shims; wrappers of applications embedded after construction and the mutual order '
      'of sibling applications (incl. types they share) are not decided.',
      'TLA+ spec (Wsgi.tla, WsgiWrap.tla) + TLC + trace validation of recorded WSGI interactions (Wsgi_Trace.tla, WsgiWrap_Trace.tla)',
      'DESIGN.md 3/C13')

claim('C14',
      'Static.tla models static serving as a sequence of file-system call actions shaped like get_file_response / find_file / '
      'build_file_response (normpath as a stack machine, refusal rules, lookup over search directories, IMS mtime, second isfile, '
      'open, mtime, size, peek, respond, non-breaking fall-through to an overlapping second static application) with one (call, errno) '
      'fault per request. TLC checks NeverServerError, Confinement, EscapeRefused, Completeness, FaultsAreSoft, Conditional over every '
      'raw segment sequence (names, "", ".", "..", "...") x IMS kind x fault. Bound to the code: EVERY behaviour TLC enumerates is '
      'replayed against two overlapping real StaticApplications over a materialised tree (3 search directories, nested, text/binary/'
      'empty/extension-less files, secrets beside and above the roots) with faults injected by shimming isfile/open/getmtime/getsize/'
      'read at the modelled call; status, exact bytes, Content-Length, Last-Modified, Content-Type and absence of the secret marker are compared.',
      'Trusted: TLC; the fault shims (module-attribute patching); symlinks not modelled; faults during body streaming are outside the property.',
      'TLA+ spec (Static.tla) + TLC exhaustive + fault-injection replay of every TLC-enumerated behaviour',
      'DESIGN.md 3/C14')

claim('C15',
      'BuiltinMw.tla models a response travelling outward through an ordered stack of built-in middlewares (one action each); only gzip '
      'may change the representation and only for clients whose Accept-Encoding accepts gzip; TLC checks Transparent, '
      'EncodedOnlyIfAccepted, VaryWhenEncoded over all stacks x 16 scenarios x 7 Accept-Encoding classes, and enumerates the stacks for '
      'the conformance leg. Differential replay: the scenario application (Responses incl. 100 kB compressible / random / empty, rendered '
      'contexts, HEAD, redirect, raised/returned 4xx/5xx, non-breaking error, uncaught exception, unknown URL, wrong method) is built with '
      'and without each stack; every scenario x Accept-Encoding class is sent to both, bodies are gunzipped, and TLC judges each record '
      '(status equal, decoded body equal, Content-Encoding/Content-Length/Vary rules; BuiltinMw_Trace). Further scenarios: a payload the '
      'application pre-compressed, clients presenting malformed / foreign cookies, a stats middleware with full reservoirs over hundreds '
      'of requests. The check also hosts two non-gating legs beyond the listed properties (ParamMw.tla, CacheReval.tla: what the '
      'parameter/context/cache middlewares are for; outcome in notes.beyond_property, never a VIOLATION).',
      'Trusted: TLC; the stdlib gzip decoder; the traceback depth printed in the default 500 body is normalised (a middleware adds frames); '
      'parameter extractors are given one parameter name, profiler without trigger.',
      'TLA+ spec (BuiltinMw.tla) + TLC exhaustive + differential replay with record validation (BuiltinMw_Trace.tla); gzip round trip projection-decided',
      'DESIGN.md 3/C15')

claim('C16',
      'Cookie.tla models signed-cookie sessions: clients with a jar entry (server-issued token / garbage / nothing), tokens [data, expiry], '
      'a clock, requests (set/del/clear/read/expire = cookie.set_expires in the past), tampering and forging (12 kinds, incl. a cookie issued '
      'by another deployment with a different / an unconfigured secret), replay of old tokens; Present(jar) = the token\'s data iff it '
      'is server-issued and unexpired, else empty; the server must re-issue when data changed and may re-issue otherwise. TLC checks '
      'OnlySignedData, GarbageIsEmpty, NeverPresentExpired for session / never / numeric expiry. Bound to the code by trace validation: '
      'TLC-generated and seeded random histories are executed against the real SignedCookieMiddleware with an injected clock and a '
      'harness-held jar (byte surgery on the raw Set-Cookie value; re-signing with another key); every request event records what the '
      'endpoint saw, the status and whether a token was issued, and TLC validates the whole history (Cookie_Trace).',
      'Trusted: TLC; injected time (module-attribute shims); http.cookies for parsing Set-Cookie; HMAC strength is outside the model.',
      'TLA+ spec (Cookie.tla) + TLC exhaustive + trace validation of executed session histories (Cookie_Trace.tla)',
      'DESIGN.md 3/C16')

claim('C17',
      'Render.tla is a decision model: value class (31 classes: JSON / HTML / plain / brace-delimited / padded text and bytes, scalars, '
      'objects, generators, JSON-native mappings and sequences, data needing degradation) x format parameter x Accept class -> the set of '
      'permitted outcomes (label + body relation), multi-valued where the property is silent; TLC checks totality, that text ignores '
      'negotiation and that JSON is the answer unless HTML is asked for, and enumerates all 558 cases. Each case is instantiated with '
      'several concrete values (corner cases + seeded random) and sent through a real Application using render_basic; the same values go '
      'through render_json, render_json_dev, streaming and JSONP renderers; responses are projected (status, label, verbatim?, parses?, '
      'parses back to the value?, contains a table?) and TLC judges every record (Render_Trace).',
      'Trusted: TLC; the value->class classifier and json parse-back comparison (projection); no NaN/Infinity, non-string keys or lone surrogates.',
      'TLA+ decision model (Render.tla) + TLC + record validation of projected responses (Render_Trace.tla); parse-back is projection-decided',
      'DESIGN.md 3/C17')

claim('C18',
      'Meta.tla is the page model of the MetaApplication: per host configuration (resources = name class x value kind, middlewares '
      'incl. a signed-cookie middleware with a key and one whose repr raises, ordinary and introspection-hostile route kinds, mount '
      'depth 0-2, HTML / JSON view) how each resource must be shown (redacted iff its name contains \'secret\', visible otherwise), '
      'that nothing leaks and that a broken section is reported inline; TLC checks the model over 153k configurations and enumerates '
      'them. Each sampled configuration is built as a real host Application, the page is fetched and projected (every unique marker '
      'searched in the raw / HTML-unescaped / backslash-unescaped / JSON-decoded body; per resource: redacted / visible / absent), and '
      'TLC judges every record (Meta_Trace).',
      'Trusted: TLC; the marker search (projection); case-sensitive match of \'secret\' as stated; numeric secrets searched by their digits.',
      'TLA+ page model (Meta.tla) + TLC + record validation of projected real pages (Meta_Trace.tla); the leak scan is projection-decided',
      'DESIGN.md 3/C18')

claim('C19',
      'TLC model-checks Reservoir.tla (algorithm shaped like Reservoir.add/resize refines the property relation; '
      'Bounded/OnlyAdded/NeverRaises/ExactCount in every reachable state, all replacement indices, all resize points) '
      'and Counters.tla (SumMatches, OncePerRoute, ResetZeroes over all request histories within the bound). '
      'Bound to the code both ways: TLC-generated operation sequences and request histories are executed against the real '
      'Reservoir/StatsMiddleware and the recorded post-states are validated by TLC against the property layer '
      '(Reservoir_Trace, Counters_Trace); long random sessions beyond the exhaustive bounds are validated the same way.',
      'Trusted: TLC, the JSON projection of the stats page (route pattern -> route id, status key -> bucket), werkzeug test client. '
      'Assumes single-threaded use; values are distinct ids; the stats application\'s own routes are projected away.',
      'TLA+ spec (Reservoir.tla, Counters.tla) + TLC exhaustive/simulation + trace validation of recorded executions',
      'DESIGN.md 3/C19')

_INJ = ('TLC model-checks Inject.tla, whose states are route configurations built by actions (middlewares at application and '
        'route level, request/endpoint/render functions, required/defaulted parameters, three provides tuples, URL bindings, '
        'resources, malformations): the fold-for-fold transcription of chain_argspec/make_chain/make_middleware_chain/'
        'build_chain_str (Algo*) is checked equal to the declarative rule (Resolvable on the route AND the catch-all, Conflict, '
        'Allowed, SpecKw) on every configuration within the budgets (exhaustive) and by simulation beyond. ')
claim('C01', _INJ +
      'Bound to the code: TLC-emitted configurations are compiled into real Middleware classes and functions (7 carriers, '
      'keyword-only and positional-only parameters), constructed via constructor and add(); outcome must be in the spec\'s '
      'Allowed set (ok / NameError / rejected), and requests to the route, to the endpoint-returns-Response variant and to '
      'the catch-all (404, 405) must not fail with an argument error and must pass every function exactly the names the spec computed.',
      'Trusted: TLC; exec-generated functions; *args/**kwargs, partial, classes as endpoints excluded; cyclic provide graphs accept '
      'either outcome; beyond the budgets the rule is argued size-independent, not proved.',
      'TLA+ spec (Inject.tla) + TLC exhaustive/simulation + replay of TLC-generated configurations into real Applications',
      'DESIGN.md 3/C01')
claim('C02', _INJ +
      'Bound to the code: every source is instantiated with a distinct sentinel object and every value received by every chain '
      'function is projected back to its source tag and compared with SpecKw (url / resource identity / builtin / middleware i '
      'phase p of THIS request / own default / endpoint result), for three request scenarios, under 4-8 PYTHONHASHSEEDs; '
      'the generated chain sources (branch-free) are parsed and their call-site keyword lists compared with the spec (all-requests argument).',
      'Trusted: TLC; identity of sentinel objects; the ast-based static leg is skipped (and reported) if sinter internals are renamed.',
      'TLA+ spec (Inject.tla) + TLC + sentinel-object replay of TLC-generated configurations + static wiring comparison',
      'DESIGN.md 3/C02')
claim('C03',
      'TLC model-checks Onion.tla: merge of three middleware levels (outer application, embedded application, route; unique / '
      'non-unique / non-reorderable types) equals the documented order, and the request stack machine (one action per function '
      'entry, next() call, return, raise; one misbehaving function per behaviour: raise before/after next, short-circuit, swallow; '
      'endpoint returning context / Response / raising) satisfies ProperNesting, PhaseOrder, RenderIff, ShortCircuit, PassThrough, '
      'Complete in every reachable state. Bound to the code: TLC-emitted behaviours (full enter/return/raise traces with the identity '
      'of the value in flight) are replayed through real nested Applications with recording middlewares and compared event by event.',
      'Trusted: TLC; recording middlewares written by the harness; unique type listed twice in ONE list and the ValueError for '
      'non-reorderable duplicates are outside the model.',
      'TLA+ spec (Onion.tla) + TLC exhaustive + replay of TLC-generated behaviours with event-trace comparison',
      'DESIGN.md 3/C03')
claim('C04', _INJ +
      'C04 instance: reserved names admitted as URL bindings, resources and provides, both malformations enabled; every pair of '
      'source kinds (url/resource/builtin/middleware within and across phases and levels) is enumerated exhaustively; replayed '
      'constructions must raise NameError where the spec pins it and must be rejected wherever any defect is present. Two further legs '
      'from the same module: ErrAvail (names an error renderer may take: request built-ins, resources in scope, _error - not context / '
      'next), and Conflict for an embedding prefix that carries a URL binding.',
      'Trusted: TLC; when several defect classes coincide only rejection is required; _ignored excluded from alphabets.',
      'TLA+ spec (Inject.tla, defect-enabled instance) + TLC exhaustive + replay of TLC-generated configurations',
      'DESIGN.md 3/C04')

claim('C05',
      'Pattern.tla specifies the mini-language on characters: three-valued lexical classes (valid/gray/invalid literals of '
      'str/int/float), segment assignment (Can / Assign), slash discipline per mode, conversion via the recorded Python '
      'int()/float() table, textual validity. TLC checks the stepwise matcher against Can/Assign and the mode algebra '
      '(Pattern_MC), enumerates textual patterns with ValidPattern for the InvalidPattern leg, and - the main leg - judges with '
      'ObsOK() every observation of the real BoundRoute.match_path on EVERY string over a 9-character alphabet up to length 5 '
      '(quick) / 6-7 (thorough) against ~100 catalogue patterns in the 3 slash modes (millions of observations, 16 TLC shards).',
      'Trusted: TLC; Python int()/float() as conversion table; segments with spaces that are numeric without them are gray; regex '
      'metacharacters in literals, trailing newline, non-ASCII digits outside the alphabet. Known finding F5 (multi binding + repeated slash) is listed in known_findings.json.',
      'TLA+ spec (Pattern.tla) + TLC + exhaustive-strings record validation (Pattern_Trace.tla) + replay of TLC-enumerated textual patterns',
      'DESIGN.md 3/C05')

claim('C06',
      'TLC model-checks Dispatch.tla: the dispatch loop (one action per branch of Application.dispatch, DispatchState as '
      'variables) is proved equal to the declarative Answer() - first match in add() order, method admission incl. HEAD-via-GET '
      'and case-insensitivity, non-breaking fall-through, 404/405 with exact Allow, and the slash redirect of branch routes (issued only '
      'after the method check: RedirectOnlyIfAdmitted) - for every table, add history and request '
      'within the bound (exhaustive <= 2-3 routes, simulation <= 4). Bound to the code: TLC-emitted add() histories are replayed '
      'into real Applications (route methods spelled in upper / lower / title case) and all 54 catalogue requests are sent to ONE '
      'application per table (so state leaking from one request into the next shows) and compared with Answer(); random larger tables '
      'over generated patterns are recorded and validated by TLC (Dispatch_Trace).',
      'Trusted: TLC; werkzeug test client; marker extraction from bodies; Allow compared modulo implicit HEAD. Patterns restricted '
      'to the untyped segment semantics of PathMatch.tla (types and slashes are C05/C07).',
      'TLA+ spec (Dispatch.tla) + TLC exhaustive/simulation + replay of TLC behaviours + record validation (Dispatch_Trace.tla)',
      'DESIGN.md 3/C06')

claim('C20',
      'Flaw.tla models the supervising loop of the development server (child start, exit-3 reload, failed start with captured stderr -> '
      'failsafe application -> monitored file fixed -> restart) and states FailsafeAlwaysUsable (whatever the captured text, the failsafe '
      'can serve and can be left), plus the page requirements per (error-text class, file-list class); TLC checks the loop and '
      'enumerates the 96 class pairs. Each pair is instantiated with concrete inputs - REAL tracebacks produced in subprocesses (8 '
      'exception types x 3 stack depths, chained exceptions, a SyntaxError report), truncated / concatenated tracebacks, random, '
      'non-printable, markup, template syntax, empty, None, bytes; file lists None / empty / 300 names / markup / non-ASCII - '
      'flaw.create_app is called, several paths and methods plus an asset are requested, the page is projected with html.parser '
      '(text and file names contained after unescaping, exception type and message named, no markup from the input) and TLC judges '
      'every record (Flaw_Trace).',
      'Trusted: TLC; html.parser; whitespace-normalised containment; the reloader loop\'s process management is model-checked, not executed.',
      'TLA+ spec (Flaw.tla: reloader loop + page requirements) + TLC + record validation of projected real pages (Flaw_Trace.tla)',
      'DESIGN.md 3/C20')

ALL = ['C%02d' % i for i in range(1, 21)]


def main():
    checks = []
    for pid in ALL:
        if pid not in CHECKS:
            continue
        c = CHECKS[pid]
        checks.append({
            'property_id': pid,
            'quick_cmd': 'bin/check %s quick' % pid,
            'thorough_cmd': 'bin/check %s thorough' % pid,
            'evidence_file': '/verif/evidence/%s.json' % pid,
            'replay_cmd_template': 'bin/check %s quick --replay {path}' % pid,
            'engine': 'tla-mbv',
            'level_claimed': {'category': 'model_checking', 'text': c['text'], 'design_ref': c['ref']},
            'level_note': c['note'],
            'technique': c['technique'],
        })
    na = []
    for pid in ALL:
        if pid in CHECKS:
            continue
        na.append({'property_id': pid,
                   'reason': NOT_APPLICABLE.get(pid, 'not claimed yet: the specification module and conformance harness for this '
                                                'property are still being built (see DESIGN.md section 3); no check is registered')})
    man = {
        'version': 1,
        'setup_cmd': '/venv/bin/python harness/setup.py',
        'hooks': {
            'guard': 'CLASTIC_VERIF',
            'enable': 'no source hooks are needed: every observation point is reachable from outside (harness-supplied '
                      'callables, module-attribute shims, sys.settrace); checks import clastic from /repo\'s working tree',
            'baseline_off_cmd': 'cd /repo && /venv/bin/python -m pytest -ra -q -p no:cacheprovider --timeout=900 '
                                '--continue-on-collection-errors',
            'source_commits': FIX_COMMITS,
            'add_only': True,
        },
        'engines': [{
            'name': 'tla-mbv',
            'path': '/verif/bin/check',
            'serves_properties': sorted(CHECKS),
            'kind_free_text': 'explicit TLA+ specification (spec/*.tla) checked by TLC; conformance by replaying TLC-generated '
                              'behaviours into the real code and validating recorded traces against <X>_Trace.tla',
        }],
        'checks': checks,
        'not_applicable': na,
        'notes': 'See DESIGN.md. Defect repairs in /repo are separate unguarded "fix:" commits listed in known_findings.json.',
    }
    with open(os.path.join(VERIF, 'MANIFEST.json'), 'w') as f:
        json.dump(man, f, indent=1)
    print('MANIFEST.json: %d checks, %d not claimed' % (len(checks), len(na)))


if __name__ == '__main__':
    main()
