--------------------------- MODULE Dispatch_Trace ---------------------------
(***************************************************************************)
(* Record validation for C06: each line of TRACE_FILE is one observation   *)
(* of the real Application:                                                *)
(*  {tid, table:[{id, patv:[{k,v}], ms:[..], beh, trail}], order:[ids of   *)
(*   app.routes], hist:[{id, idx}], q:{pathv:[..], method, trail},         *)
(*   obs:{status, by, exec:[ids], allow:[..], has_allow, head}}            *)
(* TLC accepts the record iff the observation is what Answer() says for    *)
(* that table and request, and app.routes is what the add() history gives. *)
(***************************************************************************)
EXTENDS Dispatch, IOUtils

Traces == ndJsonDeserialize(IOEnv.TRACE_FILE)
VARIABLES tid
tvars == <<vars, tid>>

SetOf(s) == {s[k] : k \in DOMAIN s}
TableOf(r) == [k \in DOMAIN r.table |->
                 [id |-> r.table[k].id, patv |-> r.table[k].patv, msv |-> SetOf(r.table[k].ms),
                  beh |-> r.table[k].beh, trail |-> r.table[k].trail]]
ReqOf(r) == [pathv |-> r.q.pathv, method |-> r.q.method, trail |-> r.q.trail]

WithHead(S) == IF "GET" \in S THEN S \cup {"HEAD"} ELSE S

Conforms(r) ==
    LET t == TableOf(r)
        a == Answer(t, ReqOf(r))
    IN /\ r.obs.status = a.status
       /\ r.obs.exec = a.exec
       /\ (r.obs.head \/ r.obs.by = a.by)           \* HEAD responses have no body to carry the marker
       /\ (a.status = 405 => /\ r.obs.has_allow
                             /\ WithHead(SetOf(r.obs.allow)) = WithHead(a.allow))
       /\ r.order = Replay(r.hist, <<>>)
       /\ r.order = [k \in DOMAIN t |-> t[k].id]

TInit == /\ tid \in 1..Len(Traces)
         /\ Init

TNext == UNCHANGED tvars
TSpec == TInit /\ [][TNext]_tvars
Accept == Conforms(Traces[tid]) => PrintT(<<"ACCEPT", Traces[tid].tid>>)
At == PrintT(<<"AT", Traces[tid].tid, 0>>)
=============================================================================
