----------------------------- MODULE Meta_Trace -----------------------------
(* Record validation for C18: {tid, o:{status, res:[{nc, how, leak}], keyleak, inline_ok}} projected from real meta pages. *)
EXTENDS Meta, IOUtils
Traces == ndJsonDeserialize(IOEnv.TRACE_FILE)
VARIABLES tid
TInit == tid \in 1..Len(Traces) /\ resources = {} /\ mws = {} /\ routes = {} /\ depth = 0 /\ view = "html"
TSpec == TInit /\ [][UNCHANGED <<vars, tid>>]_<<vars, tid>>
Accept == ObsOK(Traces[tid].o) => PrintT(<<"ACCEPT", Traces[tid].tid>>)
=============================================================================
