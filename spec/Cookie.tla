------------------------------- MODULE Cookie -------------------------------
(***************************************************************************)
(* C16: SignedCookieMiddleware - only intact, unexpired, server-signed     *)
(* data is ever presented to the application.                              *)
(*                                                                         *)
(* Clients hold a cookie jar entry (a token the server issued, garbage, or *)
(* nothing).  The server keeps no session state: everything is in the      *)
(* token [d: data, exp: expiry].  Actions: a request performing an         *)
(* operation on the cookie, the clock advancing, the client tampering with *)
(* its cookie, replaying an old token or using another client's token.     *)
(***************************************************************************)
EXTENDS Naturals, Sequences, FiniteSets, TLC, Json

CONSTANTS Clients, Keys, Values,
          Expiry,        \* 0 = session, 99 = never, otherwise seconds
          MaxClock, MaxOps, TamperKinds

NoExp == 999
Absent == "-"
Empty == [k \in Keys |-> Absent]
DataSets == [Keys -> Values \cup {Absent}]

VARIABLES clock, tokens, jar, ops
vars == <<clock, tokens, jar, ops>>
view == <<clock, tokens, jar>>

Init == /\ clock = 0 /\ tokens = <<>> /\ ops = <<>>
        /\ jar = [c \in Clients |-> [k |-> "none", id |-> 0]]

Numeric == Expiry # 0 /\ Expiry # 99

\* what the middleware hands to the application for the cookie the client sent
Present(j) == IF j.k = "tok" /\ ~tokens[j.id].dead /\ clock <= tokens[j.id].exp THEN tokens[j.id].d ELSE Empty

Apply(d, op) == CASE op.o = "set"   -> [d EXCEPT ![op.key] = op.val]
                  [] op.o = "del"   -> [d EXCEPT ![op.key] = Absent]
                  [] op.o = "clear" -> Empty
                  [] op.o = "read"  -> d
                  [] op.o = "expire" -> d      \* cookie.set_expires(<a moment in the past>): THIS client's cookie is re-issued as
                                              \* already expired; nobody else's cookie, no later cookie is affected

\* one request of client c.  `reissue`: the response carries a Set-Cookie with a fresh token.
\* The server MUST re-issue when the data changed; it MAY re-issue otherwise.
Req(c, op, reissue) ==
    LET seen == Present(jar[c])
        newd == Apply(seen, op)
    IN /\ Len(ops) < MaxOps
       /\ (newd # seen => reissue)
       /\ (op.o = "expire" => reissue)
       /\ IF reissue
          THEN /\ tokens' = Append(tokens, [d |-> newd, exp |-> IF Numeric THEN clock + Expiry ELSE NoExp, dead |-> op.o = "expire"])
               /\ jar' = [jar EXCEPT ![c] = [k |-> "tok", id |-> Len(tokens) + 1]]
          ELSE UNCHANGED <<tokens, jar>>
       /\ ops' = Append(ops, [a |-> "req", c |-> c, op |-> op, seen |-> seen, reissue |-> reissue, n |-> 0, kind |-> "-", c2 |-> c])
       /\ UNCHANGED clock

Tick(n) == /\ Len(ops) < MaxOps /\ clock + n <= MaxClock /\ clock' = clock + n
           /\ ops' = Append(ops, [a |-> "tick", c |-> "-", op |-> [o |-> "-", key |-> "-", val |-> "-"], seen |-> Empty,
                                  reissue |-> FALSE, n |-> n, kind |-> "-", c2 |-> "-"])
           /\ UNCHANGED <<tokens, jar>>

\* byte surgery on the stored cookie: whatever the kind, the result is not a server-signed token
Tamper(c, kind) ==
    /\ Len(ops) < MaxOps /\ jar[c].k # "none"
    /\ jar' = [jar EXCEPT ![c] = [k |-> "garbage", id |-> 0]]
    /\ ops' = Append(ops, [a |-> "tamper", c |-> c, op |-> [o |-> "-", key |-> "-", val |-> "-"], seen |-> Empty,
                           reissue |-> FALSE, n |-> 0, kind |-> kind, c2 |-> "-"])
    /\ UNCHANGED <<clock, tokens>>
\* arbitrary bytes where there was no cookie at all
Forge(c, kind) ==
    /\ Len(ops) < MaxOps
    /\ jar' = [jar EXCEPT ![c] = [k |-> "garbage", id |-> 0]]
    /\ ops' = Append(ops, [a |-> "forge", c |-> c, op |-> [o |-> "-", key |-> "-", val |-> "-"], seen |-> Empty,
                           reissue |-> FALSE, n |-> 0, kind |-> kind, c2 |-> "-"])
    /\ UNCHANGED <<clock, tokens>>
\* the client presents a token the server issued earlier (to anybody): it IS server-signed
Replay(c, t) ==
    /\ Len(ops) < MaxOps /\ t \in DOMAIN tokens
    /\ jar' = [jar EXCEPT ![c] = [k |-> "tok", id |-> t]]
    /\ ops' = Append(ops, [a |-> "replay", c |-> c, op |-> [o |-> "-", key |-> "-", val |-> "-"], seen |-> Empty,
                           reissue |-> FALSE, n |-> t, kind |-> "-", c2 |-> "-"])
    /\ UNCHANGED <<clock, tokens>>

Ops == [o : {"set"}, key : Keys, val : Values] \cup [o : {"del"}, key : Keys, val : {Absent}]
       \cup [o : {"clear", "read", "expire"}, key : {Absent}, val : {Absent}]

Next == \/ \E c \in Clients, op \in Ops, r \in BOOLEAN : Req(c, op, r)
        \/ \E n \in 1..2 : Tick(n)
        \/ \E c \in Clients, k \in TamperKinds : Tamper(c, k) \/ Forge(c, k)
        \/ \E c \in Clients, t \in 1..MaxOps : Replay(c, t)
Spec == Init /\ [][Next]_vars

\* whatever is presented is the data of a token the server itself issued, or nothing
OnlySignedData == \A c \in Clients : Present(jar[c]) = Empty \/ \E t \in DOMAIN tokens : Present(jar[c]) = tokens[t].d
GarbageIsEmpty == \A c \in Clients : jar[c].k = "garbage" => Present(jar[c]) = Empty
NeverPresentExpired == \A c \in Clients : (jar[c].k = "tok" /\ (clock > tokens[jar[c].id].exp \/ tokens[jar[c].id].dead)) => Present(jar[c]) = Empty
\* expiring one cookie kills that token only
ExpireIsLocal == \A t \in DOMAIN tokens : tokens[t].dead =>
                    \E k \in DOMAIN ops : ops[k].a = "req" /\ ops[k].op.o = "expire" /\ ops[k].reissue
\* exact contents: a client that neither tampers nor replays sees exactly what it stored last (while unexpired)
LastStored(c) == LET idx == {k \in DOMAIN ops : ops[k].a = "req" /\ ops[k].c = c /\ ops[k].reissue}
                 IN IF idx = {} THEN 0 ELSE CHOOSE k \in idx : \A j \in idx : j <= k
Emit == (Len(ops) = MaxOps) => PrintT(<<"EMIT", ToJson([ops |-> ops, expiry |-> Expiry])>>)
=============================================================================
