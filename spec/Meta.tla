-------------------------------- MODULE Meta --------------------------------
(***************************************************************************)
(* C18: the meta application never reveals secrets and always renders.     *)
(*                                                                         *)
(* A host configuration: a set of resources (name class x value kind), a   *)
(* set of middlewares (signed cookie with a key, a middleware whose repr   *)
(* raises), route kinds (incl. introspection-hostile endpoints), the depth *)
(* at which the MetaApplication is mounted and the view (HTML / JSON).     *)
(* The page model says, per resource, how it must be shown.                *)
(***************************************************************************)
EXTENDS Naturals, Sequences, FiniteSets, TLC, Json

CONSTANTS NameClasses, ValueKinds, MaxRes, MwKinds, RouteKinds, Depths, Views

\* 'secret' in name (case-sensitive substring)
HasSecret(nc) == nc \in {"prefix", "infix", "suffix", "exact"}
\* how a resource must be shown
Shown(nc) == IF HasSecret(nc) THEN "redacted" ELSE "visible"

Res == [nc : NameClasses, vk : ValueKinds]
VARIABLES resources, mws, routes, depth, view
vars == <<resources, mws, routes, depth, view>>
Pairs == UNION {{{a, b} : b \in {x \in Res : x.nc # a.nc}} : a \in Res}
Triples == UNION {{p \cup {c} : c \in {y \in Res : y.nc = "none" /\ \A q \in p : q.nc # "none"}} : p \in Pairs}
ResSets == {{}} \cup {{a} : a \in Res} \cup (IF MaxRes >= 2 THEN Pairs ELSE {}) \cup (IF MaxRes >= 3 THEN Triples ELSE {})
Init == /\ resources \in {S \in ResSets : \A a, b \in S : a.nc = b.nc => a = b}
        /\ mws \in SUBSET MwKinds
        /\ routes \in {{}, RouteKinds \cap {"func", "method"}, RouteKinds \cap {"callable_obj", "builtin", "lambda"}, RouteKinds}
        /\ depth \in Depths /\ view \in Views
Spec == Init /\ [][UNCHANGED vars]_vars

\* the page for this configuration
Page == [status |-> 200,
         shown |-> [r \in resources |-> Shown(r.nc)],
         leaks |-> {},                                   \* no secret value, no cookie signing key
         brokenSectionInline |-> ("brokenrepr" \in mws)] \* a section that cannot be computed is reported inline
NoSecretVisible == \A r \in resources : HasSecret(r.nc) => Page.shown[r] = "redacted"
OthersVisible == \A r \in resources : ~HasSecret(r.nc) => Page.shown[r] = "visible"
Always200 == Page.status = 200
Emit == PrintT(<<"EMIT", ToJson([resources |-> resources, mws |-> mws, routes |-> routes, depth |-> depth, view |-> view,
                                 shown |-> {[nc |-> r.nc, vk |-> r.vk, how |-> Shown(r.nc)] : r \in resources},
                                 brokenInline |-> ("brokenrepr" \in mws)])>>)

(* verdict on a projected real page (Meta_Trace):
   o = [status, res: sequence of [nc, how ("redacted"|"visible"|"absent"), leak], keyleak, inline_ok] *)
ObsOK(o) == /\ o.status = 200
            /\ \A i \in DOMAIN o.res : /\ o.res[i].how = Shown(o.res[i].nc)
                                       /\ (HasSecret(o.res[i].nc) => ~o.res[i].leak)
            /\ ~o.keyleak
            /\ o.inline_ok
=============================================================================
