------------------------------- MODULE Onion -------------------------------
(***************************************************************************)
(* C03: the M-shaped nesting of middleware functions at request time.      *)
(*                                                                         *)
(* Configuration: three levels of middleware lists (outer application,     *)
(* embedded application, route), each middleware = [t: type, ph: phases it *)
(* implements]; types carry the class attributes unique / reorderable.     *)
(* Merge transcribes the documented order.  The request is a stack         *)
(* machine: one action per entry into a function, per call of next(), per  *)
(* return and per raise.  One function of the chain may misbehave          *)
(* (fault plan): raise before or after next(), return a Response without   *)
(* calling next() (short circuit), or swallow the inner exception.         *)
(***************************************************************************)
EXTENDS Naturals, Sequences, FiniteSets, TLC, Json

CONSTANTS Types,        \* middleware types, e.g. {"A", "B", "C"}
          TypeAttr,     \* [Types -> [unique: BOOLEAN, reorderable: BOOLEAN]]
          MaxPerLevel,  \* max middlewares per level
          MaxTotal,     \* max middlewares over all levels
          MinTotal,     \* min middlewares before a request is run (steers simulation)
          PhaseSets,    \* allowed sets of phases per middleware, e.g. {{1},{2},{3},{1,2,3}}
          Faults,       \* subset of {"none","raiseBefore","raiseAfter","short","swallow"}
          EpKinds,      \* subset of {"context","response","raise"}
          RnKinds       \* subset of {"response","none"}: what the render function returns (None = a forgotten return)

Mw == [t : Types, ph : PhaseSets]
\* the type table used by the configs: A, B unique + reorderable (the default of Middleware),
\* N not unique, X unique but not reorderable
TA1 == [A |-> [unique |-> TRUE, reorderable |-> TRUE], B |-> [unique |-> TRUE, reorderable |-> TRUE],
        N |-> [unique |-> FALSE, reorderable |-> TRUE], X |-> [unique |-> TRUE, reorderable |-> FALSE]]

(******************************** merging **********************************)
\* middleware.core.merge_middlewares(old, new): new (outer) first; an `old` middleware whose type is
\* unique and already present is dropped (reorderable) or is an error (not reorderable)
\* merge results are records [ok, l]: ok = FALSE stands for the ValueError
RECURSIVE MergeInto(_, _)
MergeInto(merged, old) ==
    IF ~merged.ok THEN merged
    ELSE IF old = <<>> THEN merged
    ELSE LET mw == Head(old)
             present == \E k \in DOMAIN merged.l : merged.l[k].t = mw.t
         IN IF TypeAttr[mw.t].unique /\ present
            THEN IF TypeAttr[mw.t].reorderable THEN MergeInto(merged, Tail(old))
                 ELSE [ok |-> FALSE, l |-> <<>>]
            ELSE MergeInto([ok |-> TRUE, l |-> Append(merged.l, mw)], Tail(old))

\* a route declared in `inner` (embedded in `outer`): bound to inner first, then re-bound to outer
\* middlewares are tagged with their level and index so that instances can be told apart
Tag(l, lvl) == [k \in DOMAIN l |-> [t |-> l[k].t, ph |-> l[k].ph, lvl |-> lvl, i |-> k]]
MergeAllT(o, i, r) == MergeInto([ok |-> TRUE, l |-> o], MergeInto([ok |-> TRUE, l |-> i], r).l)
MergeAll(o, i, r) == MergeAllT(Tag(o, 1), Tag(i, 2), Tag(r, 3))
MergeOk(o, i, r) == MergeInto([ok |-> TRUE, l |-> Tag(i, 2)], Tag(r, 3)).ok /\ MergeAll(o, i, r).ok
\* a unique type listed twice within ONE list is outside the model (the documentation is silent)
NoDupWithin(l) == \A a, b \in DOMAIN l : (a # b /\ l[a].t = l[b].t) => ~TypeAttr[l[a].t].unique

\* the documented order, stated independently: concatenation outer, inner, route, keeping for a unique
\* type only its first (outermost) occurrence among those contributed by `later` lists
RECURSIVE DocFilter(_, _)
DocFilter(acc, rest) ==
    IF rest = <<>> THEN acc
    ELSE LET mw == Head(rest)
         IN IF TypeAttr[mw.t].unique /\ (\E k \in DOMAIN acc : acc[k].t = mw.t)
            THEN DocFilter(acc, Tail(rest))
            ELSE DocFilter(Append(acc, mw), Tail(rest))
DocOrder(o, i, r) == DocFilter(Tag(o, 1), Tag(i, 2) \o Tag(r, 3))   \* outer list is kept as given

(***************************** the request *********************************)
VARIABLES outer, inner, route,   \* the three levels
          chain,     \* merged middleware list
          plan,      \* [f |-> function id or "-", k |-> fault kind]
          epKind,    \* what the endpoint does
          rnKind,    \* what the render function returns
          stack,     \* sequence of function ids currently active
          mode,      \* "idle" | "call" | "return" | "raise" | "done"
          carry,     \* the value in flight: [k |-> "resp"|"exc"|"ctx"|"none", by |-> function id]
          trace      \* sequence of events

vars == <<outer, inner, route, chain, plan, epKind, rnKind, stack, mode, carry, trace>>

\* function ids: <<position in merged chain, phase>>; endpoint = <<0, 2>>, render = <<0, 3>>,
\* the generated process_request glue = <<0, 1>> (not observable, no events)
EP == <<0, 2>>
RN == <<0, 3>>
GLUE == <<0, 1>>
PhaseSeq(c, p) == LET RECURSIVE S(_)
                      S(k) == IF k > Len(c) THEN <<>>
                              ELSE IF p \in c[k].ph THEN << <<k, p>> >> \o S(k + 1) ELSE S(k + 1)
                  IN S(1)
\* the call order inside one phase: the phase's middleware functions, then the phase's innermost
Order(c, p) == PhaseSeq(c, p) \o << (CASE p = 1 -> GLUE [] p = 2 -> EP [] p = 3 -> RN) >>
NextOf(c, f) == LET o == Order(c, f[2])
                    k == CHOOSE j \in DOMAIN o : o[j] = f
                IN o[k + 1]
AllFuncs(c) == {<<k, p>> : k \in 1..Len(c), p \in 1..3} \cap
               {<<k, p>> : k \in DOMAIN c, p \in UNION {c[j].ph : j \in DOMAIN c}}
RealFuncs(c) == {f \in {<<k, p>> : k \in DOMAIN c, p \in 1..3} : f[2] \in c[f[1]].ph} \cup {EP, RN}

None == [k |-> "none", by |-> <<0, 0>>]
Lists == UNION {[1..k -> Mw] : k \in 0..MaxPerLevel}

\* the configuration is built by actions (so that simulation can sample large configurations)
Init == /\ outer = <<>> /\ inner = <<>> /\ route = <<>> /\ chain = <<>>
        /\ plan = [f |-> GLUE, k |-> "none"] /\ epKind = "context" /\ rnKind = "response"
        /\ stack = <<>> /\ mode = "build" /\ carry = None /\ trace = <<>>

AddMw(lvl, mw) ==
    /\ mode = "build"
    /\ Len(outer) + Len(inner) + Len(route) < MaxTotal
    /\ CASE lvl = 1 -> inner = <<>> /\ route = <<>> /\ Len(outer) < MaxPerLevel
                       /\ outer' = Append(outer, mw) /\ UNCHANGED <<inner, route>>
         [] lvl = 2 -> route = <<>> /\ Len(inner) < MaxPerLevel
                       /\ inner' = Append(inner, mw) /\ UNCHANGED <<outer, route>>
         [] lvl = 3 -> Len(route) < MaxPerLevel
                       /\ route' = Append(route, mw) /\ UNCHANGED <<outer, inner>>
    /\ UNCHANGED <<chain, plan, epKind, rnKind, stack, mode, carry, trace>>

\* bind: the chain is merged, the fault plan and the endpoint behaviour are chosen
Go(pl, ek, rk) ==
    /\ mode = "build"
    /\ Len(outer) + Len(inner) + Len(route) >= MinTotal
    /\ NoDupWithin(outer) /\ NoDupWithin(inner) /\ NoDupWithin(route)
    /\ MergeOk(outer, inner, route)
    /\ chain' = MergeAll(outer, inner, route).l
    /\ pl \in {[f |-> GLUE, k |-> "none"]} \cup [f : RealFuncs(chain'), k : Faults \ {"none"}]
    /\ (pl.f \in {EP, RN} => pl.k \in {"raiseBefore"})   \* innermost functions have no next()
    /\ plan' = pl /\ epKind' = ek /\ rnKind' = rk /\ mode' = "idle"
    /\ UNCHANGED <<outer, inner, route, stack, carry, trace>>

PlanSpace == {[f |-> GLUE, k |-> "none"]} \cup
             [f : ({<<k, p>> : k \in 1..MaxTotal, p \in 1..3} \cup {EP, RN}), k : Faults \ {"none"}]

Top == stack[Len(stack)]
Pop == SubSeq(stack, 1, Len(stack) - 1)
FaultOf(f) == IF plan.f = f THEN plan.k ELSE "none"
Ev(a, f, c) == [a |-> a, f |-> f, k |-> c.k, by |-> c.by]

\* the framework calls the outermost function of the request chain
Start == /\ mode = "idle"
         /\ stack' = << Order(chain, 1)[1] >>
         /\ mode' = "call"
         /\ UNCHANGED <<outer, inner, route, chain, plan, epKind, rnKind, carry, trace>>

\* control arrives at the top function (a middleware function): it is entered
EnterMw ==
    /\ mode = "call" /\ Top \notin {GLUE, EP, RN}
    /\ LET f == Top IN
       /\ CASE FaultOf(f) = "raiseBefore" ->
                 /\ trace' = trace \o <<Ev("enter", f, None), Ev("raise", f, [k |-> "exc", by |-> f])>>
                 /\ carry' = [k |-> "exc", by |-> f] /\ mode' = "raise" /\ stack' = Pop
            [] FaultOf(f) = "short" ->
                 /\ trace' = trace \o <<Ev("enter", f, None), Ev("return", f, [k |-> "resp", by |-> f])>>
                 /\ carry' = [k |-> "resp", by |-> f] /\ mode' = "return" /\ stack' = Pop
            [] OTHER ->      \* calls next(): control moves to the next function of the phase
                 /\ trace' = Append(trace, Ev("enter", f, None))
                 /\ stack' = Append(stack, NextOf(chain, f))
                 /\ UNCHANGED <<mode, carry>>
    /\ UNCHANGED <<outer, inner, route, chain, plan, epKind, rnKind>>

\* process_request: calls the endpoint chain first
EnterGlue ==
    /\ mode = "call" /\ Top = GLUE
    /\ stack' = Append(stack, Order(chain, 2)[1])
    /\ UNCHANGED <<outer, inner, route, chain, plan, epKind, rnKind, mode, carry, trace>>

EnterEndpoint ==
    /\ mode = "call" /\ Top = EP
    /\ LET c == IF FaultOf(EP) = "raiseBefore" \/ epKind = "raise" THEN [k |-> "exc", by |-> EP]
                ELSE IF epKind = "response" THEN [k |-> "resp", by |-> EP]
                ELSE [k |-> "ctx", by |-> EP]
       IN /\ trace' = trace \o <<Ev("enter", EP, None), Ev(IF c.k = "exc" THEN "raise" ELSE "return", EP, c)>>
          /\ carry' = c /\ mode' = IF c.k = "exc" THEN "raise" ELSE "return"
    /\ stack' = Pop
    /\ UNCHANGED <<outer, inner, route, chain, plan, epKind, rnKind>>

EnterRender ==
    /\ mode = "call" /\ Top = RN
    /\ LET c == IF FaultOf(RN) = "raiseBefore" THEN [k |-> "exc", by |-> RN]
                ELSE IF rnKind = "none" THEN [k |-> "nil", by |-> RN]      \* returns None: travels outward like any value
                ELSE [k |-> "resp", by |-> RN]
       IN /\ trace' = trace \o <<Ev("enter", RN, None), Ev(IF c.k = "exc" THEN "raise" ELSE "return", RN, c)>>
          /\ carry' = c /\ mode' = IF c.k = "exc" THEN "raise" ELSE "return"
    /\ stack' = Pop
    /\ UNCHANGED <<outer, inner, route, chain, plan, epKind, rnKind>>

\* next() returned into a middleware function
ReturnIntoMw ==
    /\ mode = "return" /\ stack # <<>> /\ Top \notin {GLUE}
    /\ LET f == Top IN
       IF FaultOf(f) = "raiseAfter"
       THEN /\ trace' = Append(trace, Ev("raise", f, [k |-> "exc", by |-> f]))
            /\ carry' = [k |-> "exc", by |-> f] /\ mode' = "raise"
       ELSE /\ trace' = Append(trace, Ev("return", f, carry))      \* passes the inner result through
            /\ UNCHANGED <<carry, mode>>
    /\ stack' = Pop
    /\ UNCHANGED <<outer, inner, route, chain, plan, epKind, rnKind>>

\* next() raised into a middleware function
RaiseIntoMw ==
    /\ mode = "raise" /\ stack # <<>> /\ Top \notin {GLUE}
    /\ LET f == Top IN
       IF FaultOf(f) = "swallow"
       THEN /\ trace' = Append(trace, Ev("return", f, [k |-> "resp", by |-> f]))
            /\ carry' = [k |-> "resp", by |-> f] /\ mode' = "return"
       ELSE /\ trace' = Append(trace, Ev("raise", f, carry))       \* the same exception propagates
            /\ UNCHANGED <<carry, mode>>
    /\ stack' = Pop
    /\ UNCHANGED <<outer, inner, route, chain, plan, epKind, rnKind>>

\* the endpoint chain came back to process_request
GlueAfterEndpoint ==
    /\ stack # <<>> /\ Top = GLUE /\ mode \in {"return", "raise"}
    /\ IF mode = "return" /\ carry.k = "ctx"
       THEN \* not a Response: the render chain runs with the context
            /\ stack' = Append(stack, Order(chain, 3)[1]) /\ mode' = "call" /\ carry' = [k |-> "ctxseen", by |-> EP]
       ELSE \* a Response (render skipped) or an exception: process_request is left
            /\ stack' = Pop /\ UNCHANGED <<mode, carry>>
    /\ UNCHANGED <<outer, inner, route, chain, plan, epKind, rnKind, trace>>

\* (the render chain returning into GLUE is the same transition: carry is then resp/exc)

Finish == /\ stack = <<>> /\ mode \in {"return", "raise"}
          /\ mode' = "done"
          /\ UNCHANGED <<outer, inner, route, chain, plan, epKind, rnKind, stack, carry, trace>>

Next == (\E lvl \in 1..3, mw \in Mw : AddMw(lvl, mw))
        \/ (\E pl \in PlanSpace, ek \in EpKinds, rk \in RnKinds : Go(pl, ek, rk))
        \/ Start \/ EnterMw \/ EnterGlue \/ EnterEndpoint \/ EnterRender \/ ReturnIntoMw \/ RaiseIntoMw
        \/ GlueAfterEndpoint \/ Finish

Spec == Init /\ [][Next]_vars

(****************************** properties *********************************)
MergeIsDocumented == mode # "build" => chain = DocOrder(outer, inner, route)

Events(a) == SelectSeq(trace, LAMBDA e : e.a = a)
Entered == [k \in DOMAIN Events("enter") |-> Events("enter")[k].f]

\* properly nested: the sequence of events is a well-bracketed word (checked incrementally: every
\* return/raise event belongs to the most recently entered function that has not completed yet)
RECURSIVE Open(_)
Open(tr) == IF tr = <<>> THEN <<>>
            ELSE LET e == tr[Len(tr)]
                     before == Open(SubSeq(tr, 1, Len(tr) - 1))
                 IN IF e.a = "enter" THEN Append(before, e.f)
                    ELSE SubSeq(before, 1, Len(before) - 1)
ProperNesting ==
    \A k \in DOMAIN trace :
        trace[k].a # "enter" =>
            LET o == Open(SubSeq(trace, 1, k - 1)) IN o # <<>> /\ o[Len(o)] = trace[k].f

\* enters follow merged list order within each phase; request phase encloses endpoint phase, which
\* precedes the render phase
PhaseOrder ==
    \A i, j \in DOMAIN Entered : i < j =>
        LET a == Entered[i]  b == Entered[j] IN
        /\ (a[2] = b[2] /\ a[1] # 0 /\ b[1] # 0 => a[1] < b[1])
        /\ (a[2] = b[2] => (a[1] = 0 => FALSE) \/ TRUE)
        /\ a[2] <= b[2]

\* render phase runs iff the endpoint side returned a non-Response
RenderIff ==
    mode = "done" =>
      ((\E k \in DOMAIN trace : trace[k].a = "enter" /\ trace[k].f[2] = 3)
         <=> (\E k \in DOMAIN trace : trace[k].a = "return" /\ trace[k].f[2] = 2 /\ trace[k].k = "ctx"
                                      /\ \A j \in DOMAIN trace : (j > k /\ trace[j].f[2] = 2) => trace[j].k = "ctx"))

\* short circuit: nothing inside the short-circuiting function is entered
ShortCircuit ==
    (plan.k = "short" /\ mode = "done") =>
        \A k \in DOMAIN trace : trace[k].a = "enter" =>
            ~(trace[k].f[2] = plan.f[2] /\ (trace[k].f[1] > plan.f[1] \/ trace[k].f[1] = 0))

\* whatever a layer returns or raises is what its caller sees: consecutive completion events of
\* nested frames carry the same value unless the outer one is the faulty function
PassThrough ==
    \A k \in DOMAIN trace : (k > 1 /\ trace[k].a # "enter" /\ trace[k - 1].a # "enter" /\ trace[k].f # plan.f
                              /\ trace[k].f[2] = trace[k - 1].f[2])
        => (trace[k].k = trace[k - 1].k /\ trace[k].by = trace[k - 1].by /\ trace[k].a = trace[k - 1].a)

Complete == mode = "done" => (Len(Events("enter")) = Len(Events("return")) + Len(Events("raise")))

Emit == (mode = "done") =>
          PrintT(<<"EMIT", ToJson([outer |-> outer, inner |-> inner, route |-> route, chain |-> chain, plan |-> plan,
                                   epKind |-> epKind, rnKind |-> rnKind, trace |-> trace, final |-> carry])>>)
\* construction-level emission: every level triple with the merge verdict (ValueError for a
\* non-reorderable unique duplicate), used with MergeSpec (no request phase)
MergeInit == /\ outer \in Lists /\ inner \in Lists /\ route \in Lists
             /\ Len(outer) + Len(inner) + Len(route) <= MaxTotal
             /\ chain = <<>> /\ plan = [f |-> GLUE, k |-> "none"] /\ epKind = "context" /\ rnKind = "response"
             /\ stack = <<>> /\ mode = "idle" /\ carry = None /\ trace = <<>>
MergeSpec == MergeInit /\ [][FALSE]_vars
EmitMerge == PrintT(<<"EMIT", ToJson([outer |-> outer, inner |-> inner, route |-> route,
                                      ok |-> MergeOk(outer, inner, route),
                                      chain |-> IF MergeOk(outer, inner, route) THEN MergeAll(outer, inner, route).l ELSE <<>>])>>)
=============================================================================
