----------------------------- MODULE Reservoir -----------------------------
(***************************************************************************)
(* C19 (second half): the per-route sample store of clastic's              *)
(* StatsMiddleware (clastic/middleware/stats.py, class Reservoir).         *)
(*                                                                         *)
(* Two layers:                                                             *)
(*  - Prop*  : the property as a relation between pre- and post-state      *)
(*             (never more than cap values, exact count, never raises,     *)
(*             only values that were added).  Traces recorded from the     *)
(*             implementation are validated against this layer.            *)
(*  - Algo*  : the algorithm, shaped like the code (one action per branch  *)
(*             of Reservoir.add / resize).  Variant "asis" is the code as  *)
(*             found (guard `total <= cap`), variant "fixed" is the        *)
(*             repaired code (guard `len(data) < cap`).                    *)
(* TLC checks  Algo => Prop  (action property AlgoRefinesProp) and the     *)
(* state invariants on every reachable state; with Variant = "asis" it     *)
(* reaches err = TRUE (IndexError), which is finding F12.                  *)
(***************************************************************************)
EXTENDS Naturals, Sequences, FiniteSets, TLC, Json

CONSTANTS InitCaps,     \* set of initial capacities
          Sizes,        \* set of sizes resize() may be called with
          MaxOps,       \* bound on the number of operations in a behaviour
          Variant       \* "fixed" | "asis"

VARIABLES data,   \* the stored samples, a sequence of value ids
          cap,    \* current capacity
          total,  \* total_count as reported by the object
          added,  \* ghost: set of value ids ever passed to add()
          err,    \* ghost: an operation raised
          cap0,   \* ghost: the capacity the object was constructed with
          ops     \* history of operations (for emission): <<[a, v|n, idx]>>

vars == <<data, cap, total, added, err, cap0, ops>>
view == <<data, cap, total, added, err>>   \* VIEW for exhaustive runs: history hidden

Range(s) == {s[i] : i \in DOMAIN s}
Take(s, n) == IF n >= Len(s) THEN s ELSE SubSeq(s, 1, n)

Init == /\ cap \in InitCaps
        /\ cap0 = cap
        /\ data = <<>>
        /\ total = 0
        /\ added = {}
        /\ err = FALSE
        /\ ops = <<>>

(***************************** property layer *****************************)
\* post-state relation of add(v); primed variables must already be bound
PropAdd(v) == /\ total' = total + 1
              /\ cap' = cap
              /\ added' = added \cup {v}
              /\ err' = FALSE
              /\ Len(data') <= cap'
              /\ Range(data') \subseteq added'

PropResize(n) == /\ total' = total
                 /\ cap' = n
                 /\ added' = added
                 /\ err' = FALSE
                 /\ Len(data') <= n
                 /\ Range(data') \subseteq added

\* state invariants (the property, as state predicates)
Bounded      == Len(data) <= cap
OnlyAdded    == Range(data) \subseteq added
NeverRaises  == err = FALSE
ExactCount   == total = Len(SelectSeq(ops, LAMBDA o : o.a = "add"))
TypeOK       == /\ cap \in Nat /\ total \in Nat /\ err \in BOOLEAN
                /\ data \in Seq(Nat)

(**************************** algorithm layer *****************************)
NextVal == total + 1     \* value ids are distinct: the ordinal of the add

\* Reservoir.add, "asis":   total += 1; if total <= cap: append
\*                          else idx = randint(0,total); if idx < cap: data[idx] = v
\* (data[idx] with idx >= len(data) raises IndexError -> err)
\* "fixed":                 if len(data) < cap: append; else as before
AlgoAdd(idx) ==
    LET v == NextVal
        t == total + 1
        appendGuard == IF Variant = "asis" THEN t <= cap ELSE Len(data) < cap
    IN /\ total' = t
       /\ cap' = cap
       /\ added' = added \cup {v}
       /\ cap0' = cap0
       /\ ops' = Append(ops, [a |-> "add", v |-> v, idx |-> idx])
       /\ IF appendGuard
          THEN data' = Append(data, v) /\ err' = err
          ELSE IF idx < cap
               THEN IF idx < Len(data)
                    THEN data' = [data EXCEPT ![idx + 1] = v] /\ err' = err
                    ELSE data' = data /\ err' = TRUE       \* IndexError
               ELSE data' = data /\ err' = err

AlgoResize(n) ==
    /\ cap' = n
    /\ data' = Take(data, n)
    /\ UNCHANGED <<total, added, err, cap0>>
    /\ ops' = Append(ops, [a |-> "resize", v |-> n, idx |-> 0])

Next == /\ Len(ops) < MaxOps
        /\ err = FALSE
        /\ \/ \E idx \in 0..(total + 1) : AlgoAdd(idx)
           \/ \E n \in Sizes : AlgoResize(n)

Spec == Init /\ [][Next]_vars

\* every algorithm step is a step the property allows
AlgoRefinesProp ==
    [][ \/ (\E o \in {ops'[Len(ops')]} : o.a = "add" /\ PropAdd(o.v))
        \/ (\E o \in {ops'[Len(ops')]} : o.a = "resize" /\ PropResize(o.v)) ]_vars

\* behaviours leave TLC here (terminal states only)
Emit == (Len(ops) = MaxOps \/ err) =>
          PrintT(<<"EMIT", ToJson([cap0 |-> cap0, ops |-> ops,
                                   data |-> data, total |-> total, err |-> err])>>)
=============================================================================
