---------------------------- MODULE Render_Trace ----------------------------
(* Record validation for C17: {tid, kind:"basic"|json renderer kind, c, fmt, acc, status, label, verbatim, parses, roundtrip, has_table} *)
EXTENDS Render, IOUtils
Traces == ndJsonDeserialize(IOEnv.TRACE_FILE)
VARIABLES tid
TInit == tid \in 1..Len(Traces) /\ c = "Int" /\ fmt = "absent" /\ acc = "absent"
TSpec == TInit /\ [][UNCHANGED <<vars, tid>>]_<<vars, tid>>
OK(o) == IF o.kind = "basic" THEN ObsOK(o)
         ELSE LET want == JsonRenderOutcome(o.kind, o.c) IN
              CASE want = "parses-to-value" -> o.status = 200 /\ o.parses /\ o.roundtrip
                [] want = "parses" -> o.status = 200 /\ o.parses
                [] want = "unspecified" -> TRUE
Accept == OK(Traces[tid]) => PrintT(<<"ACCEPT", Traces[tid].tid>>)
=============================================================================
