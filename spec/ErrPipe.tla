------------------------------ MODULE ErrPipe ------------------------------
(***************************************************************************)
(* C08: every request gets a response - the error pipeline of              *)
(* Application.dispatch (try/except around route.execute, the non-Response *)
(* TypeError, uncaught_to_response / reraise_uncaught, breaking vs         *)
(* non-breaking HTTPExceptions, the catch-all route, execute_error with    *)
(* the default_render_error fallback).                                     *)
(*                                                                         *)
(* One application (error handler kind + render_error kind) serves a       *)
(* HISTORY of requests; each request names the behaviour of one function   *)
(* of the chain and its position.  One action per step of the pipeline.    *)
(* The application has no variable that a request may change: that is the  *)
(* specification of "a failed request leaves the application able to       *)
(* serve the next one unchanged".                                          *)
(***************************************************************************)
EXTENDS Naturals, Sequences, FiniteSets, TLC, Json

CONSTANTS Behs,        \* behaviours of the designated function
          Positions,   \* where the designated function sits in the chain
          Handlers,    \* "default" | "contextual" | "reraise"
          ReKinds,     \* render_error: "default" | "raises" (any exception) | "raiseshttp" (it RAISES an HTTPException: a failure like
                       \* any other) | "other" (it returns another error) | "nonresp"
          Siblings,    \* subset of BOOLEAN: TRUE = every behaviour route is preceded by a route with the same pattern that is
                       \* restricted to a method no request uses, so DispatchState.allowed_methods is non-empty whenever the
                       \* request falls through to the catch-all
          MaxReqs

AllBehs == {"resp",            \* returns a Response
            "ctx",             \* returns a context that the renderer turns into a Response (normal path)
            "nonresp",         \* returns a non-Response where a Response is due (no renderer / from render / from a middleware)
            "raiseExc",        \* raises an Exception subclass (not an HTTPException)
            "raiseHttpB", "returnHttpB",     \* HTTPException, breaking, raised / returned
            "raiseHttpNB", "returnHttpNB",   \* HTTPException marked non-breaking, raised / returned
            \* requests to a path served by two method-restricted routes (GET-only, POST-only):
            "mGet", "mPost",   \* admitted by the first / the second route
            "mWrong",          \* admitted by neither: DispatchState collects the allowed methods, the catch-all answers 405
            \* requests to a route with a typed binding (/t/<n:int>):
            "tOk",             \* a valid literal: the route answers
            "tBad"}            \* a segment the pattern lets through but the conversion rejects ("+ 5"): no match -> 404
MethodBehs == {"mGet", "mPost", "mWrong", "tOk", "tBad"}
AllPositions == {"ep", "rn", "rqmwBefore", "rqmwAfter", "epmwBefore", "epmwAfter", "rnmwBefore", "rnmwAfter"}

\* a behaviour is expressible at a position ("ctx" only makes sense for the endpoint)
Feasible(b, p) == (b = "ctx" => p = "ep") /\ (b \in MethodBehs => p = "ep")

VARIABLES cfg,      \* [handler, re] - never changes after construction
          hist,     \* completed requests: sequence of [beh, pos, out]
          cur,      \* current request [beh, pos] or NoReq
          pc,       \* "idle" | "executed" | "caught" | "classify" | "nullroute" | "renderError" | "fallback" | "done"
          val,      \* value in flight: [k |-> "resp"|"nonresp"|"exc"|"http"|"none", own |-> BOOLEAN (own status), brk |-> BOOLEAN, cls]
          excs,     \* DispatchState.exceptions (per request)
          out       \* outcome of the current request

vars == <<cfg, hist, cur, pc, val, excs, out>>
NoReq == [beh |-> "-", pos |-> "-"]
NoVal == [k |-> "none", own |-> FALSE, brk |-> TRUE, cls |-> "-"]
NoOut == [k |-> "-", status |-> "-", exc |-> "-"]

Init == /\ cfg \in [handler : Handlers, re : ReKinds, sibling : Siblings]
        /\ hist = <<>> /\ cur = NoReq /\ pc = "idle" /\ val = NoVal /\ excs = <<>> /\ out = NoOut

NewRequest(b, p) ==
    /\ pc = "idle" /\ Len(hist) < MaxReqs /\ Feasible(b, p)
    /\ cur' = [beh |-> b, pos |-> p] /\ pc' = "execute" /\ excs' = <<>> /\ val' = NoVal /\ out' = NoOut
    /\ UNCHANGED <<cfg, hist>>

\* route.execute(**params): the chain runs; what comes out depends on the designated function
Execute ==
    /\ pc = "execute"
    /\ val' = CASE cur.beh \in {"resp", "ctx"} -> [k |-> "resp", own |-> FALSE, brk |-> TRUE, cls |-> "-"]
                [] cur.beh = "mGet"  -> [k |-> "resp", own |-> FALSE, brk |-> TRUE, cls |-> "get"]     \* the GET route answered
                [] cur.beh = "mPost" -> [k |-> "resp", own |-> FALSE, brk |-> TRUE, cls |-> "post"]    \* the POST route answered
                [] cur.beh = "mWrong" -> [k |-> "http", own |-> FALSE, brk |-> TRUE, cls |-> "405"]    \* MethodNotAllowed from the catch-all
                [] cur.beh = "tOk"   -> [k |-> "resp", own |-> FALSE, brk |-> TRUE, cls |-> "typed"]
                [] cur.beh = "tBad"  -> [k |-> "http", own |-> FALSE, brk |-> TRUE, cls |-> "404"]    \* NotFound from the catch-all
                [] cur.beh = "nonresp"        -> [k |-> "nonresp", own |-> FALSE, brk |-> TRUE, cls |-> "-"]
                [] cur.beh = "raiseExc"       -> [k |-> "exc", own |-> FALSE, brk |-> TRUE, cls |-> "app"]
                [] cur.beh \in {"raiseHttpB", "returnHttpB"}   -> [k |-> "http", own |-> TRUE, brk |-> TRUE, cls |-> "-"]
                [] cur.beh \in {"raiseHttpNB", "returnHttpNB"} -> [k |-> "http", own |-> TRUE, brk |-> FALSE, cls |-> "-"]
    /\ pc' = "executed"
    /\ UNCHANGED <<cfg, hist, cur, excs, out>>

\* `if not isinstance(ret, BaseResponse): raise TypeError(...)`
CheckResponse ==
    /\ pc = "executed"
    /\ IF val.k = "nonresp" THEN val' = [k |-> "exc", own |-> FALSE, brk |-> TRUE, cls |-> "TypeError"]
       ELSE UNCHANGED val
    /\ pc' = "caught"
    /\ UNCHANGED <<cfg, hist, cur, excs, out>>

\* `except Exception as exc: ... if not HTTPException: uncaught_to_response(...)`
Caught ==
    /\ pc = "caught"
    /\ IF val.k = "exc"
       THEN IF cfg.handler = "reraise"
            THEN /\ out' = [k |-> "escape", status |-> "-", exc |-> val.cls]      \* the same exception object
                 /\ pc' = "done" /\ UNCHANGED val
            ELSE /\ val' = [k |-> "http", own |-> FALSE, brk |-> TRUE, cls |-> "-"]   \* server error (500)
                 /\ pc' = "classify" /\ UNCHANGED out
       ELSE pc' = "classify" /\ UNCHANGED <<val, out>>
    /\ UNCHANGED <<cfg, hist, cur, excs>>

Classify ==
    /\ pc = "classify"
    /\ CASE val.k = "resp" -> /\ out' = [k |-> "status", status |-> (IF val.cls \in {"get", "post", "typed"} THEN "ok:" \o val.cls ELSE "ok"), exc |-> "-"]
                              /\ pc' = "done" /\ UNCHANGED excs
         [] val.k = "http" /\ val.brk -> pc' = "renderError" /\ UNCHANGED <<out, excs>>
         [] val.k = "http" /\ ~val.brk -> excs' = Append(excs, val) /\ pc' = "nullroute" /\ UNCHANGED out
    /\ UNCHANGED <<cfg, hist, cur, val>>

\* the catch-all returns the most recent non-breaking error - also when a method-restricted sibling was skipped on the
\* way (cfg.sibling): a pending error outranks "405 Method Not Allowed"
NullRoute ==
    /\ pc = "nullroute"
    /\ val' = excs[Len(excs)]
    /\ pc' = "renderError"
    /\ UNCHANGED <<cfg, hist, cur, excs, out>>

StatusOfVal == IF val.own THEN "own" ELSE IF val.cls \in {"405", "404"} THEN val.cls ELSE "500"

\* route.execute_error(...) with the handler's render_error
RenderError ==
    /\ pc = "renderError"
    /\ CASE cfg.re = "default" -> out' = [k |-> "status", status |-> StatusOfVal, exc |-> "-"] /\ pc' = "done"
         [] cfg.re = "other"   -> out' = [k |-> "status", status |-> "otherOrSame:" \o StatusOfVal, exc |-> "-"] /\ pc' = "done"
         [] cfg.re \in {"raises", "nonresp", "raiseshttp"} -> pc' = "fallback" /\ UNCHANGED out
    /\ UNCHANGED <<cfg, hist, cur, val, excs>>

\* `except Exception: ret = default_render_error(...)` - the same error, default rendering
Fallback ==
    /\ pc = "fallback"
    /\ out' = [k |-> "status", status |-> StatusOfVal, exc |-> "-"] /\ pc' = "done"
    /\ UNCHANGED <<cfg, hist, cur, val, excs>>

Complete ==
    /\ pc = "done"
    /\ hist' = Append(hist, [beh |-> cur.beh, pos |-> cur.pos, out |-> out])
    /\ cur' = NoReq /\ pc' = "idle" /\ val' = NoVal /\ excs' = <<>> /\ out' = NoOut
    /\ UNCHANGED cfg

Next == \/ \E b \in Behs, p \in Positions : NewRequest(b, p)
        \/ Execute \/ CheckResponse \/ Caught \/ Classify \/ NullRoute \/ RenderError \/ Fallback \/ Complete
Spec == Init /\ [][Next]_vars

(***************************** properties *********************************)
\* the outcome of a request is a function of the application and the request alone
Expected(c, b) ==
    CASE b \in {"resp", "ctx"} -> [k |-> "status", status |-> "ok", exc |-> "-"]
      [] b = "mGet" -> [k |-> "status", status |-> "ok:get", exc |-> "-"]
      [] b = "mPost" -> [k |-> "status", status |-> "ok:post", exc |-> "-"]
      [] b = "mWrong" -> [k |-> "status", status |-> IF c.re = "other" THEN "otherOrSame:405" ELSE "405", exc |-> "-"]
      [] b = "tOk" -> [k |-> "status", status |-> "ok:typed", exc |-> "-"]
      [] b = "tBad" -> [k |-> "status", status |-> IF c.re = "other" THEN "otherOrSame:404" ELSE "404", exc |-> "-"]
      [] b \in {"nonresp", "raiseExc"} ->
           IF c.handler = "reraise" THEN [k |-> "escape", status |-> "-", exc |-> IF b = "nonresp" THEN "TypeError" ELSE "app"]
           ELSE [k |-> "status", status |-> IF c.re = "other" THEN "otherOrSame:500" ELSE "500", exc |-> "-"]
      [] OTHER -> [k |-> "status", status |-> IF c.re = "other" THEN "otherOrSame:own" ELSE "own", exc |-> "-"]

Total == \A k \in DOMAIN hist : hist[k].out.k \in {"status", "escape"}
EscapeOnlyIfReraise == \A k \in DOMAIN hist : hist[k].out.k = "escape" => cfg.handler = "reraise"
HistoryFree == \A k \in DOMAIN hist : hist[k].out = Expected(cfg, hist[k].beh)
HttpKeepsStatus == \A k \in DOMAIN hist :
                     (hist[k].beh \in {"raiseHttpB", "returnHttpB", "raiseHttpNB", "returnHttpNB"} /\ cfg.re # "other")
                        => hist[k].out = [k |-> "status", status |-> "own", exc |-> "-"]
ConfigImmutable == [][cfg' = cfg]_vars
\* every request terminates (no pipeline state without a successor): checked as deadlock-freedom of
\* non-idle states
NoStuck == pc # "idle" => ENABLED Next

Emit == (pc = "idle" /\ Len(hist) = MaxReqs) => PrintT(<<"EMIT", ToJson([cfg |-> cfg, hist |-> hist])>>)
=============================================================================
