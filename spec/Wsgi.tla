-------------------------------- MODULE Wsgi --------------------------------
(***************************************************************************)
(* C13: an Application is a conforming WSGI application.                   *)
(*                                                                         *)
(* Part 1 - the WSGI call protocol as a state machine (one server-side     *)
(* call): Call, StartResponse, Yield, Close, plus OpenFile / CloseFile for *)
(* files opened by the application.  Recorded interactions of the real     *)
(* application are validated against it (Wsgi_Trace).                      *)
(* (Part 2, the order of wsgi_wrapper middlewares, is WsgiWrap.tla.)        *)
(***************************************************************************)
EXTENDS Naturals, Sequences, FiniteSets, TLC, Json

CONSTANTS Methods, MaxChunks, FileIds

(**************************** part 1: protocol ******************************)
VARIABLES phase,      \* "idle" | "called" | "started" | "body" | "closed"
          method,
          starts,     \* number of start_response calls
          bytesOut,   \* body bytes handed to the server so far
          openFiles,  \* files opened by the application and not yet closed
          ev          \* history (emission / diagnostics)

pvars == <<phase, method, starts, bytesOut, openFiles, ev>>

PInit == phase = "idle" /\ method = "-" /\ starts = 0 /\ bytesOut = 0 /\ openFiles = {} /\ ev = <<>>

Call(m) == /\ phase = "idle" /\ phase' = "called" /\ method' = m
           /\ ev' = Append(ev, [a |-> "call", m |-> m]) /\ UNCHANGED <<starts, bytesOut, openFiles>>

\* start_response(status, headers[, exc_info]); statusOK = "NNN reason" with a 3-digit code,
\* headersOK = list of (str, str) pairs without control characters
StartResponse(statusOK, headersOK, excInfo) ==
    /\ phase \in {"called", "started"}
    /\ statusOK /\ headersOK
    /\ (starts > 0 => excInfo)          \* a second call is only legal with exc_info, before any body byte
    /\ bytesOut = 0
    /\ phase' = "started" /\ starts' = starts + 1
    /\ ev' = Append(ev, [a |-> "start"]) /\ UNCHANGED <<method, bytesOut, openFiles>>

\* the iterable yields a chunk of n bytes (n = 0 allowed)
Yield(n) == /\ phase \in {"started", "body"}
            /\ (method = "HEAD" => n = 0)       \* no body for HEAD
            /\ phase' = "body" /\ bytesOut' = bytesOut + n
            /\ ev' = Append(ev, [a |-> "yield", n |-> n]) /\ UNCHANGED <<method, starts, openFiles>>

OpenFile(h) == /\ phase \in {"called", "started", "body"} /\ h \notin openFiles
               /\ openFiles' = openFiles \cup {h}
               /\ ev' = Append(ev, [a |-> "open", h |-> h]) /\ UNCHANGED <<phase, method, starts, bytesOut>>
CloseFile(h) == /\ h \in openFiles /\ openFiles' = openFiles \ {h}
                /\ ev' = Append(ev, [a |-> "fclose", h |-> h]) /\ UNCHANGED <<phase, method, starts, bytesOut>>

\* the server calls close() on the iterable: afterwards no file the application opened is open
Close == /\ phase \in {"started", "body"} /\ openFiles = {}
         /\ phase' = "closed"
         /\ ev' = Append(ev, [a |-> "close"]) /\ UNCHANGED <<method, starts, bytesOut, openFiles>>

PNext == \/ \E m \in Methods : Call(m)
         \/ \E e \in BOOLEAN : Len(ev) < MaxChunks /\ StartResponse(TRUE, TRUE, e)
         \/ \E n \in 0..2 : Len(ev) < MaxChunks /\ Yield(n)
         \/ \E h \in FileIds : Len(ev) < MaxChunks /\ (OpenFile(h) \/ CloseFile(h))
         \/ Close
PSpec == PInit /\ [][PNext]_pvars

\* (a repeated start_response is legal only with exc_info and before any body byte: guard of StartResponse)
StartedBeforeBody == phase \in {"body", "closed"} => starts >= 1
StartBeforeBytes == bytesOut > 0 => starts >= 1
HeadNoBody == method = "HEAD" => bytesOut = 0
FilesReleasedOnClose == phase = "closed" => openFiles = {}
ClosedMeansStarted == phase = "closed" => starts >= 1

=============================================================================
