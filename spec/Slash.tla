------------------------------- MODULE Slash -------------------------------
(***************************************************************************)
(* C07: trailing-slash handling of Application.dispatch + normalize_path.  *)
(*                                                                         *)
(* A request path is a sequence of [run, seg] pairs (run = number of       *)
(* slashes before the segment, seg = DECODED segment text id) plus the     *)
(* number of trailing slashes.  Segment ids stand for texts containing     *)
(* URL-significant characters (palette in the harness).  The behaviour of  *)
(* one client is two steps: request; if the answer is a redirect, follow   *)
(* its Location.  One action per branch of the dispatch code.              *)
(***************************************************************************)
EXTENDS Naturals, Sequences, FiniteSets, TLC, Json, PathMatch

CONSTANTS SegIds,      \* decoded segment texts (ids), "a" is the literal used by the patterns
          MaxSegs, MinSegs,   \* MinSegs steers simulation (0 for exhaustive runs)
          Queries,     \* query-string ids, "none" = no "?" at all
          Modes, RouteKinds, Methods

\* route kinds: pattern + branch flag
L(v) == [k |-> "lit", v |-> v]
B(k, n) == [k |-> k, v |-> n]
PatOf(kind) ==
    CASE kind \in {"rootB"}               -> <<>>
      [] kind \in {"staticB", "staticL"}  -> <<L("a"), L("b")>>
      [] kind \in {"singleB", "singleL"}  -> <<L("a"), B("one", "x")>>
      [] kind \in {"multiB", "multiL"}    -> <<L("a"), B("many0", "r")>>
IsBranch(kind) == kind \in {"rootB", "staticB", "singleB", "multiB"}

\* (the set of all request paths, for documentation; the machine builds them by AddSeg)
Paths == UNION {[els : [1..n -> [run : 1..2, seg : SegIds]], trail : 0..2] : n \in 1..MaxSegs}
         \cup {[els |-> <<>>, trail |-> t] : t \in 1..2}          \* "/" and "//"

SegsOf(p) == [k \in DOMAIN p.els |-> p.els[k].seg]
\* canonical form for a branch: single slashes, exactly one trailing slash ("/" for the root)
Canon(p) == IF p.els = <<>> THEN [els |-> <<>>, trail |-> 1]
            ELSE [els |-> [k \in DOMAIN p.els |-> [run |-> 1, seg |-> p.els[k].seg]], trail |-> 1]
IsCanon(p) == p = Canon(p)
SingleSlashes(p) == \A k \in DOMAIN p.els : p.els[k].run = 1

\* strict mode: exactly the pattern's slashes
StrictSlashes(p, branch) ==
    IF p.els = <<>> THEN p.trail = 1 /\ branch
    ELSE SingleSlashes(p) /\ p.trail = (IF branch THEN 1 ELSE 0)

VARIABLES cfg,    \* [appMode, routeMode, innerMode, embed, inherit, kind, methods ("any"|"GET")]
          req,    \* [path, query, method]
          step,   \* 0 not sent, 1 first answered, 2 redirect followed
          ans1, ans2   \* answers: [k: "exec"|"redirect"|"404"|"405"|"-", path (Location path), query, params]

vars == <<cfg, req, step, ans1, ans2>>
NoAns == [k |-> "-", path |-> [els |-> <<>>, trail |-> 1], query |-> "none", params |-> <<>>]

\* the slash mode a bound route ends up with.  Not embedded: the application's unless the route was added with
\* inherit_slashes=False.  Embedded (the route lives in an inner application with its own mode, which it inherited
\* when first bound there): the serving application's unless the embedding opted out, then the INNER application's.
EffMode(c) == IF c.embed THEN (IF c.inherit THEN c.appMode ELSE c.innerMode)
              ELSE (IF c.inherit THEN c.appMode ELSE c.routeMode)

\* what the dispatcher sees: the request layer (werkzeug Request.path = "/" + PATH_INFO.lstrip("/"))
\* collapses the LEADING slash run before clastic looks at the path
Seen(p) == IF p.els = <<>> THEN [els |-> <<>>, trail |-> 1]
           ELSE [p EXCEPT !.els[1].run = 1]

\* one pass through Application.dispatch for this single-route application
Dispatch(c, p0, q, m) ==
    LET p == Seen(p0)
        mode == EffMode(c)
        branch == IsBranch(c.kind)
        segs == SegsOf(p)
        pathMatch == /\ Matches(PatOf(c.kind), segs)
                     /\ (mode = "strict" => StrictSlashes(p, branch))
        admitted == c.methods = "any" \/ m \in {"GET", "HEAD"}
    IN IF ~pathMatch THEN [NoAns EXCEPT !.k = "404"]
       ELSE IF ~admitted THEN [NoAns EXCEPT !.k = "405"]
       ELSE IF branch /\ ~IsCanon(p)
            THEN CASE mode = "redirect" -> [k |-> "redirect", path |-> Canon(p), query |-> q, params |-> <<>>]
                   [] mode = "strict"   -> [NoAns EXCEPT !.k = "404"]
                   [] mode = "rewrite"  -> [k |-> "exec", path |-> p, query |-> q, params |-> segs]
            ELSE [k |-> "exec", path |-> p, query |-> q, params |-> segs]

\* configuration and request are chosen by actions (so that simulation can sample large alphabets)
NoCfg == [appMode |-> "-", routeMode |-> "-", innerMode |-> "-", embed |-> FALSE, inherit |-> TRUE, kind |-> "-", methods |-> "-"]
Init == /\ cfg = NoCfg
        /\ req = [path |-> [els |-> <<>>, trail |-> 0], query |-> "none", method |-> "-"]
        /\ step = 0 /\ ans1 = NoAns /\ ans2 = NoAns

ChooseCfg(c) == /\ cfg = NoCfg /\ cfg' = c /\ UNCHANGED <<req, step, ans1, ans2>>
AddSeg(run, seg) ==
    /\ cfg # NoCfg /\ req.method = "-" /\ Len(req.path.els) < MaxSegs
    /\ req' = [req EXCEPT !.path.els = Append(@, [run |-> run, seg |-> seg])]
    /\ UNCHANGED <<cfg, step, ans1, ans2>>
ChooseReq(trail, q, m) ==
    /\ cfg # NoCfg /\ req.method = "-" /\ Len(req.path.els) >= MinSegs
    /\ (req.path.els = <<>> => trail >= 1)
    /\ req' = [req EXCEPT !.path.trail = trail, !.query = q, !.method = m]
    /\ UNCHANGED <<cfg, step, ans1, ans2>>

Send == /\ step = 0 /\ req.method # "-"
        /\ ans1' = Dispatch(cfg, req.path, req.query, req.method)
        /\ step' = 1
        /\ UNCHANGED <<cfg, req, ans2>>

\* the client requests the Location it was given (same method: a 30x from clastic is followed as issued)
Follow == /\ step = 1 /\ ans1.k = "redirect"
          /\ ans2' = Dispatch(cfg, ans1.path, ans1.query, req.method)
          /\ step' = 2
          /\ UNCHANGED <<cfg, req, ans1>>

Cfgs == [appMode : Modes, routeMode : Modes, innerMode : Modes, embed : BOOLEAN, inherit : BOOLEAN, kind : RouteKinds, methods : {"any", "GET"}]
Next == \/ \E c \in Cfgs : ChooseCfg(c)
        \/ \E run \in 1..2, seg \in SegIds : AddSeg(run, seg)
        \/ \E t \in 0..2, q \in Queries, m \in Methods : ChooseReq(t, q, m)
        \/ Send \/ Follow
Spec == Init /\ [][Next]_vars

(***************************** properties *********************************)
CanonIdempotent == Canon(Canon(req.path)) = Canon(req.path)
\* the redirect is issued exactly under the stated conditions
RedirectOnlyWhen ==
    step >= 1 =>
      (ans1.k = "redirect" <=>
          /\ EffMode(cfg) = "redirect" /\ IsBranch(cfg.kind)
          /\ Matches(PatOf(cfg.kind), SegsOf(req.path))
          /\ (cfg.methods = "any" \/ req.method \in {"GET", "HEAD"})
          /\ ~IsCanon(Seen(req.path)))
NeverInStrictOrRewrite == step >= 1 /\ EffMode(cfg) # "redirect" => ans1.k # "redirect"
\* following the redirect reaches the same resource in one hop: executed, same decoded segments, same query
OneHop == step = 2 => /\ ans2.k = "exec"
                      /\ ans2.params = SegsOf(req.path)
                      /\ ans2.query = req.query
                      /\ ans2.path = Canon(req.path)
QueryUnchanged == step >= 1 /\ ans1.k = "redirect" => ans1.query = req.query
RewriteExecutes == step >= 1 /\ EffMode(cfg) = "rewrite" /\ Matches(PatOf(cfg.kind), SegsOf(req.path))
                     /\ (cfg.methods = "any" \/ req.method \in {"GET", "HEAD"}) => ans1.k = "exec"

Done == (step = 1 /\ ans1.k # "redirect") \/ step = 2
Emit == Done => PrintT(<<"EMIT", ToJson([cfg |-> cfg, req |-> req, ans1 |-> ans1, ans2 |-> ans2])>>)
=============================================================================
