--------------------------- MODULE BuiltinMw_Trace ---------------------------
(* Record validation for C15: {tid, ae, o:{status, base_status, decoded_same, encoded, ce_gzip, cl_matches, vary_ae, has_gzip}} *)
(* recorded by running the same request against the scenario application with and without the middleware stack.               *)
EXTENDS BuiltinMw, IOUtils
Traces == ndJsonDeserialize(IOEnv.TRACE_FILE)
VARIABLES tid
TInit == tid \in 1..Len(Traces) /\ stack = <<>> /\ scen = "ok200" /\ ae = "absent" /\ pos = 1
         /\ resp = [status |-> 200, body |-> "orig", encoded |-> FALSE, vary |-> FALSE]
TSpec == TInit /\ [][UNCHANGED <<vars, tid>>]_<<vars, tid>>
Accept == ObsOK(Traces[tid].o, Traces[tid].ae) => PrintT(<<"ACCEPT", Traces[tid].tid>>)
=============================================================================
