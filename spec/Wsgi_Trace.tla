---------------------------- MODULE Wsgi_Trace ----------------------------
(***************************************************************************)
(* Trace validation for the WSGI protocol machine: every line of           *)
(* TRACE_FILE is one recorded server-side call of the real application:    *)
(*  {tid, ev:[{a:"call", m} | {a:"start", statusOK, headersOK, excInfo} |  *)
(*            {a:"yield", n} | {a:"open", h} | {a:"fclose", h} |           *)
(*            {a:"close"}]}   (other events - "escaped", "validator_error" - *)
(*            have no action: they are never accepted)                     *)
(* recorded by a recording start_response, a counting iterator wrapper and *)
(* a tracked open().  A trace is accepted iff every event is a step the    *)
(* protocol machine allows and the trace ends in phase "closed".           *)
(***************************************************************************)
EXTENDS Wsgi, IOUtils
Traces == ndJsonDeserialize(IOEnv.TRACE_FILE)
VARIABLES tid, l
tvars == <<pvars, tid, l>>
TInit == tid \in 1..Len(Traces) /\ l = 0 /\ PInit
Ev == Traces[tid].ev
TNext == /\ l < Len(Ev) /\ l' = l + 1 /\ tid' = tid
         /\ LET e == Ev[l + 1] IN
              \/ e.a = "call" /\ Call(e.m)
              \/ e.a = "start" /\ StartResponse(e.statusOK, e.headersOK, e.excInfo)
              \/ e.a = "yield" /\ e.bytesOK /\ Yield(e.n)      \* chunks must be bytes
              \/ e.a = "open" /\ OpenFile(e.h)
              \/ e.a = "fclose" /\ CloseFile(e.h)
              \/ e.a = "close" /\ Close
              \* an exception escaping the call is a behaviour only for an application whose error handler re-raises
              \/ e.a = "escaped" /\ Traces[tid].reraise /\ UNCHANGED pvars
TSpec == TInit /\ [][TNext]_tvars
Accept == (l = Len(Ev) /\ phase = "closed") => PrintT(<<"ACCEPT", Traces[tid].tid>>)
\* traces recorded inside the repository's own test-suite: werkzeug's test client closes the iterable lazily (or
\* never), so only "every event is a legal step" is required of them
AcceptPrefix == (l = Len(Ev)) => PrintT(<<"ACCEPT", Traces[tid].tid>>)
At == PrintT(<<"AT", Traces[tid].tid, l>>)
=============================================================================
