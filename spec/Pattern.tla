------------------------------ MODULE Pattern ------------------------------
(***************************************************************************)
(* C05: clastic's URL-pattern mini-language (route.py:_compile_path_pattern,*)
(* build_converter, BoundRoute.match_path), specified on characters.       *)
(*                                                                         *)
(* Alphabet: "/", letters "a" "e", digit "5", ".", "-", "+", " ", "é"      *)
(* (plus their upper-case forms "A" "E" "É" in the case probes)             *)
(* (one-character strings).  A path is a sequence of characters starting   *)
(* with "/".  A pattern is [els, trail]: els a sequence of                 *)
(*     [k |-> "lit", v |-> chars]                                          *)
(*     [k |-> "bind", n |-> name, t |-> "str"|"int"|"float",               *)
(*      op |-> "" | ":" | "?" | "*" | "+"]                                 *)
(* and trail = the pattern text ends with "/".                             *)
(*                                                                         *)
(* Lexical layer: three-valued classification of a segment as a literal of *)
(* a type (valid / gray / invalid).  Gray = the documentation is silent    *)
(* (segments containing spaces that would be valid without them).          *)
(* Matching layer: Can(els, segs, lvl) - an assignment of segments to      *)
(* elements exists; ValidAssignment - a GIVEN assignment (the observed     *)
(* binds) is one of them.  Slash layer: strict demands exactly the         *)
(* pattern's slashes, redirect/rewrite tolerate repeated/trailing ones.    *)
(***************************************************************************)
EXTENDS Naturals, Sequences, FiniteSets, TLC

Digit(c) == c = "5"
Sign(c) == c = "+" \/ c = "-"

(******************************* lexical ***********************************)
\* number of leading digits of s
RECURSIVE LeadDigits(_)
LeadDigits(s) == IF s = <<>> \/ ~Digit(Head(s)) THEN 0 ELSE 1 + LeadDigits(Tail(s))
Drop(s, n) == SubSeq(s, n + 1, Len(s))
StripSign(s) == IF s # <<>> /\ Sign(Head(s)) THEN Tail(s) ELSE s

IntShape(s) == LET r == StripSign(s) IN r # <<>> /\ LeadDigits(r) = Len(r)

\* exponent part: "e" sign? digits+   (or nothing)
ExpShape(s) == s = <<>> \/ (Head(s) \in {"e", "E"} /\ LET r == StripSign(Tail(s)) IN r # <<>> /\ LeadDigits(r) = Len(r))
FloatShape(s) ==
    LET r == StripSign(s)
        n == LeadDigits(r)
        afterInt == Drop(r, n)
    IN IF n > 0
       THEN \* digits [ "." digits* ] [exp]
            IF afterInt # <<>> /\ Head(afterInt) = "."
            THEN LET f == Tail(afterInt) IN ExpShape(Drop(f, LeadDigits(f)))
            ELSE ExpShape(afterInt)
       ELSE \* "." digits+ [exp]
            r # <<>> /\ Head(r) = "." /\ LET f == Tail(r) IN LeadDigits(f) > 0 /\ ExpShape(Drop(f, LeadDigits(f)))

NoSpaces(s) == SelectSeq(s, LAMBDA c : c # " ")
HasSpace(s) == \E k \in DOMAIN s : s[k] = " "

Class(t, s) ==
    CASE t = "str"   -> "valid"
      [] t = "int"   -> IF IntShape(s) THEN "valid"
                        ELSE IF HasSpace(s) /\ IntShape(NoSpaces(s)) THEN "gray" ELSE "invalid"
      [] t = "float" -> IF FloatShape(s) THEN "valid"
                        ELSE IF HasSpace(s) /\ FloatShape(NoSpaces(s)) THEN "gray" ELSE "invalid"

SegOK(t, s, lvl) == Class(t, s) = "valid" \/ (lvl = "may" /\ Class(t, s) = "gray")

(******************************* paths *************************************)
\* segments of a path: maximal runs of non-slash characters
RECURSIVE Segs(_)
Segs(p) ==
    IF p = <<>> THEN <<>>
    ELSE IF Head(p) = "/" THEN Segs(Tail(p))
    ELSE LET RECURSIVE Take(_)
             Take(q) == IF q = <<>> \/ Head(q) = "/" THEN <<>> ELSE <<Head(q)>> \o Take(Tail(q))
             seg == Take(p)
         IN <<seg>> \o Segs(Drop(p, Len(seg)))

HasDoubleSlash(p) == \E k \in 1..(Len(p) - 1) : p[k] = "/" /\ p[k + 1] = "/"
EndsWithSlash(p) == p # <<>> /\ p[Len(p)] = "/"

(****************************** matching ***********************************)
Single(e) == e.op \in {"", ":", "?"}
RECURSIVE Can(_, _, _)
Can(els, segs, lvl) ==
    IF els = <<>> THEN segs = <<>>
    ELSE LET e == Head(els) IN
         IF e.k = "lit" THEN segs # <<>> /\ Head(segs) = e.v /\ Can(Tail(els), Tail(segs), lvl)
         ELSE CASE e.op \in {"", ":"} -> segs # <<>> /\ SegOK(e.t, Head(segs), lvl) /\ Can(Tail(els), Tail(segs), lvl)
                [] e.op = "?" -> Can(Tail(els), segs, lvl)
                                 \/ (segs # <<>> /\ SegOK(e.t, Head(segs), lvl) /\ Can(Tail(els), Tail(segs), lvl))
                [] e.op = "*" -> Can(Tail(els), segs, lvl)
                                 \/ (segs # <<>> /\ SegOK(e.t, Head(segs), lvl) /\ Can(els, Tail(segs), lvl))
                [] e.op = "+" -> segs # <<>> /\ SegOK(e.t, Head(segs), lvl)
                                 /\ (Can(Tail(els), Tail(segs), lvl) \/ Can(els, Tail(segs), lvl))

\* slash discipline of a mode
SlashOK(pat, path, mode) ==
    /\ path # <<>> /\ Head(path) = "/"
    /\ (mode = "strict" =>
          /\ ~HasDoubleSlash(path)
          /\ IF pat.els = <<>> THEN path = <<"/">>
             ELSE (EndsWithSlash(path) <=> pat.trail))

\* some segment of the path is gray for a type the pattern uses: then "must match" is not claimed
GrayInvolved(pat, path) ==
    \E k \in DOMAIN pat.els : pat.els[k].k = "bind" /\
        \E j \in DOMAIN Segs(path) : Class(pat.els[k].t, Segs(path)[j]) = "gray"
\* strict mode on a path consisting of slashes only, against a non-root pattern: documentation silent
StrictRootCorner(pat, path, mode) == mode = "strict" /\ Segs(path) = <<>> /\ pat.els # <<>>

MayMatch(pat, path, mode) == SlashOK(pat, path, mode) /\ Can(pat.els, Segs(path), "may")
MustMatch(pat, path, mode) == /\ SlashOK(pat, path, mode) /\ Can(pat.els, Segs(path), "must")
                              /\ ~GrayInvolved(pat, path) /\ ~StrictRootCorner(pat, path, mode)

(************************* checking an observation *************************)
\* binds: sequence (one entry per binding element, in pattern order) of
\*   [n |-> name, none |-> BOOLEAN, vals |-> sequence of observed values]
\* an observed value is a tagged character sequence: <<"s">> \o text for str values, <<"i">> / <<"f">> \o
\* repr(value) for int / float values; ConvOf(conv, t, seg) is Python's own conversion of that segment (table in the record)
BindEls(els) == SelectSeq(els, LAMBDA e : e.k = "bind")

\* conv: sequence of [s |-> segment, i |-> repr(int(s)) or "ERR", f |-> repr(float(s)) or "ERR"]
ConvOf(conv, t, seg) == LET e == conv[CHOOSE k \in DOMAIN conv : conv[k].s = seg]
                        IN IF t = "int" THEN e.i ELSE e.f
RECURSIVE Assign(_, _, _, _)
\* walk the pattern, consuming as many segments per binding as the observation says
Assign(els, segs, binds, conv) ==
    IF els = <<>> THEN segs = <<>> /\ binds = <<>>
    ELSE LET e == Head(els) IN
         IF e.k = "lit" THEN segs # <<>> /\ Head(segs) = e.v /\ Assign(Tail(els), Tail(segs), binds, conv)
         ELSE /\ binds # <<>> /\ Head(binds).n = e.n
              /\ LET b == Head(binds)
                     cnt == IF b.none THEN 0 ELSE Len(b.vals)
                 IN /\ cnt <= Len(segs)
                    /\ CASE e.op \in {"", ":"} -> ~b.none /\ cnt = 1
                         [] e.op = "?" -> (b.none /\ cnt = 0) \/ (~b.none /\ cnt = 1)
                         [] e.op = "*" -> ~b.none              \* absent = empty list
                         [] e.op = "+" -> ~b.none /\ cnt >= 1
                    /\ \A k \in 1..cnt : /\ SegOK(e.t, segs[k], "may")
                                         /\ b.vals[k] = IF e.t = "str" THEN <<"s">> \o segs[k] ELSE ConvOf(conv, e.t, segs[k])
                    /\ Assign(Tail(els), Drop(segs, cnt), Tail(binds), conv)

\* the verdict on one observation
ObsOK(pat, path, mode, matched, binds, conv) ==
    IF matched THEN SlashOK(pat, path, mode) /\ Assign(pat.els, Segs(path), binds, conv)
    ELSE ~MustMatch(pat, path, mode)

(*************************** pattern validity ******************************)
\* abstract textual pattern: [lead: BOOLEAN, parts: sequence of part], part =
\*   [k |-> "lit"] | [k |-> "empty"]  (an empty part between two slashes: "//")
\*   | [k |-> "bind", n |-> name, t |-> type text, op |-> operator text]
KnownTypes == {"str", "int", "float", "unicode", ""}      \* "" = no type given
KnownOps == {"", ":", "?", "*", "+"}
\* the text is  (lead ? "/" : "") + parts joined by "/" + (trail ? "/" : "");  an empty part yields "//"
\* only if something (or a flagged slash) stands on both of its sides
NP(tp) == Len(tp.parts)
\* the rendered text starts with a slash: an explicit one, or the separator after an empty first part (a lone empty part
\* without trailing slash renders as the empty string, which has no leading slash)
EffLead(tp) == tp.lead \/ (tp.parts[1].k = "empty" /\ (NP(tp) > 1 \/ tp.trail))
DoubleSlash(tp) == \E k \in DOMAIN tp.parts :
                      tp.parts[k].k = "empty" /\ (k > 1 \/ tp.lead) /\ (k < NP(tp) \/ tp.trail)
ValidPattern(tp) ==
    /\ EffLead(tp)
    /\ ~DoubleSlash(tp)
    /\ \A i, j \in DOMAIN tp.parts : (i # j /\ tp.parts[i].k = "bind" /\ tp.parts[j].k = "bind")
                                        => tp.parts[i].n # tp.parts[j].n
    /\ \A k \in DOMAIN tp.parts : tp.parts[k].k = "bind" => (tp.parts[k].t \in KnownTypes /\ tp.parts[k].op \in KnownOps)
=============================================================================
