-------------------------------- MODULE Flaw --------------------------------
(***************************************************************************)
(* C20: the Flaw failsafe application.                                     *)
(*                                                                         *)
(* Part 1 - the supervising loop of the development server                 *)
(* (server.restart_with_reloader): the child is (re)started; exit code 3   *)
(* means "a file changed, restart"; exit code 1 with captured stderr means *)
(* "start-up failed": the failsafe application is created from the         *)
(* captured text and serves until a monitored file changes.  One action    *)
(* per branch.  The property needs the failsafe to be creatable and        *)
(* servable for ANY captured text, otherwise the loop dies.                *)
(* Part 2 - what the failsafe page must satisfy, per class of error text   *)
(* and file list (decision model judged on projected real pages).          *)
(***************************************************************************)
EXTENDS Naturals, Sequences, FiniteSets, TLC, Json

CONSTANTS TextClasses, FileClasses, MaxRestarts

StdTb(tc) == tc \in {"StdTraceback", "StdTracebackNonAscii", "StdTracebackHuge", "ChainedTraceback"}
IsText(tc) == tc \notin {"NoneValue", "Bytes", "BytesInvalidUtf8"}

VARIABLES sup,       \* supervisor: "starting" | "childRunning" | "failsafe" | "stopped"
          text,      \* class of the captured stderr text of the last failed start
          files,     \* class of the monitored-file list reported by the child
          restarts,
          served     \* requests answered by the failsafe so far
vars == <<sup, text, files, restarts, served>>

Init == sup = "starting" /\ text = "-" /\ files = "-" /\ restarts = 0 /\ served = 0

ChildStarts == /\ sup = "starting" /\ sup' = "childRunning" /\ UNCHANGED <<text, files, restarts, served>>
\* the child exits with code 3 after a file change
ChildReload == /\ sup = "childRunning" /\ restarts < MaxRestarts
               /\ sup' = "starting" /\ restarts' = restarts + 1 /\ UNCHANGED <<text, files, served>>
\* the child fails during start-up: exit code 1, stderr captured; error_func builds and serves the failsafe
ChildFails(tc, fc) == /\ sup \in {"starting", "childRunning"} /\ restarts < MaxRestarts
                      /\ text' = tc /\ files' = fc /\ sup' = "failsafe" /\ served' = 0
                      /\ UNCHANGED restarts
\* the failsafe answers a request (any path, any method) with the page
FailsafeServes == /\ sup = "failsafe" /\ served < 2 /\ served' = served + 1 /\ UNCHANGED <<sup, text, files, restarts>>
\* a monitored file changes: the failsafe is shut down and the application restarted
FixAndRestart == /\ sup = "failsafe" /\ restarts < MaxRestarts
                 /\ sup' = "starting" /\ restarts' = restarts + 1 /\ UNCHANGED <<text, files, served>>
ChildExitsNormally == /\ sup = "childRunning" /\ sup' = "stopped" /\ UNCHANGED <<text, files, restarts, served>>

Next == ChildStarts \/ ChildReload \/ (\E tc \in TextClasses, fc \in FileClasses : ChildFails(tc, fc))
        \/ FailsafeServes \/ FixAndRestart \/ ChildExitsNormally
Spec == Init /\ [][Next]_vars

\* the loop never gets stuck in the failsafe: whatever the text, it can serve and it can be left
FailsafeAlwaysUsable == sup = "failsafe" => (ENABLED FailsafeServes \/ served = 2) /\ (restarts < MaxRestarts => ENABLED FixAndRestart)
TypeOK == sup \in {"starting", "childRunning", "failsafe", "stopped"} /\ restarts <= MaxRestarts

(************************** part 2: the page ******************************)
\* required of the page for a (text class, file class): [constructs, status, containsText, containsFiles, namesTypeAndMsg]
Required(tc, fc) == [constructs |-> TRUE, status |-> 200,
                     containsText |-> IsText(tc),
                     containsFiles |-> fc \notin {"None", "Empty"},
                     namesTypeAndMsg |-> StdTb(tc)]
\* o = [tc, fc, constructs, status, containsText, containsFiles, namesType, namesMsg, alienMarkup]
ObsOK(o) == LET r == Required(o.tc, o.fc) IN
            /\ o.constructs /\ o.status = 200
            /\ (r.containsText => o.containsText)
            /\ (r.containsFiles => o.containsFiles)
            /\ (r.namesTypeAndMsg => o.namesType /\ o.namesMsg)
            /\ ~o.alienMarkup
Emit == (sup = "failsafe" /\ served = 0) => PrintT(<<"EMIT", ToJson([tc |-> text, fc |-> files, req |-> Required(text, files)])>>)
=============================================================================
