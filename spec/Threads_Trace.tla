---------------------------- MODULE Threads_Trace ----------------------------
(***************************************************************************)
(* Trace validation for C12.  One line per controlled (or free-running)    *)
(* multi-threaded execution against ONE real Application:                  *)
(*  {tid, reqs: [request name per thread],                                 *)
(*   ev: [{p, a:"mw"|"endpoint"|"respond", params, token, rid, resp}]}     *)
(* in the global order in which the scheduler serialised them (for free    *)
(* running stress only per-thread order is meaningful; the rules below     *)
(* only use per-thread order and the set of ids).  Observed values are     *)
(* projected to the name of the request they belong to.  A trace is        *)
(* accepted iff every thread only ever sees its own request's values, ends *)
(* with the response it gets when served alone, and ids are unique.        *)
(***************************************************************************)
EXTENDS Threads, IOUtils, Json
Traces == ndJsonDeserialize(IOEnv.TRACE_FILE)
VARIABLES tid, l, stage, used
tvars == <<vars, tid, l, stage, used>>
TInit == /\ tid \in 1..Len(Traces) /\ l = 0 /\ Init
         /\ stage = [p \in 1..8 |-> 0] /\ used = {}
Ev == Traces[tid].ev
R(p) == Traces[tid].reqs[p]
AloneR(p) == IF Fixed(R(p)) THEN <<"fixed", R(p)>> ELSE IF Fails(R(p)) THEN <<"500", ErrorOf(R(p))>>
             ELSE <<"200", ParamsOf(R(p)), TokenOf(R(p))>>
TNext == /\ l < Len(Ev) /\ l' = l + 1 /\ tid' = tid /\ UNCHANGED vars
         /\ LET e == Ev[l + 1] IN
              \/ /\ e.a = "mw" /\ stage[e.p] \in {0, 1}   \* (every tried route, and the catch-all, run the middleware)
                 /\ e.token = TokenOf(R(e.p))
                 /\ stage' = [stage EXCEPT ![e.p] = 1] /\ used' = used
              \/ /\ e.a = "endpoint" /\ stage[e.p] = 1
                 /\ e.params = ParamsOf(R(e.p)) /\ e.token = TokenOf(R(e.p))
                 /\ e.rid \notin used /\ used' = used \cup {e.rid}
                 /\ stage' = [stage EXCEPT ![e.p] = 2]
              \/ /\ e.a = "respond" /\ stage[e.p] \in {0, 1, 2}
                 /\ (stage[e.p] = 0 => Fixed(R(e.p)) \/ TRUE)
                 /\ e.resp = AloneR(e.p)
                 /\ stage' = [stage EXCEPT ![e.p] = 3] /\ used' = used
TSpec == TInit /\ [][TNext]_tvars
Accept == (l = Len(Ev)) => PrintT(<<"ACCEPT", Traces[tid].tid>>)
At == PrintT(<<"AT", Traces[tid].tid, l>>)
=============================================================================
