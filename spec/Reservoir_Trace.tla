-------------------------- MODULE Reservoir_Trace --------------------------
(***************************************************************************)
(* Trace validation for Reservoir: every line of TRACE_FILE is one trace   *)
(* recorded from the real clastic.middleware.stats.Reservoir:              *)
(*   {tid, cap, ev: [{a:"add", v, data, total, raised} |                   *)
(*                   {a:"resize", n, data, total, raised}]}                *)
(* data is the content of the object after the call (value ids), total is  *)
(* total_count, raised tells whether the call raised.  Which index was     *)
(* replaced is NOT logged: the property layer (PropAdd) is a relation and  *)
(* TLC decides whether the observed post-state is one it allows.           *)
(***************************************************************************)
EXTENDS Reservoir, IOUtils

Traces == ndJsonDeserialize(IOEnv.TRACE_FILE)

VARIABLES tid, l
tvars == <<vars, tid, l>>

TInit == /\ tid \in 1..Len(Traces)
         /\ l = 0
         /\ cap = Traces[tid].cap
         /\ cap0 = Traces[tid].cap
         /\ data = <<>> /\ total = 0 /\ added = {} /\ err = FALSE /\ ops = <<>>

Ev == Traces[tid].ev

TAdd(e) == /\ e.a = "add"
           /\ e.raised = FALSE
           /\ data' = e.data /\ total' = e.total
           /\ cap0' = cap0 /\ ops' = ops
           /\ PropAdd(e.v)

TResize(e) == /\ e.a = "resize"
              /\ e.raised = FALSE
              /\ data' = e.data /\ total' = e.total
              /\ cap0' = cap0 /\ ops' = ops
              /\ PropResize(e.n)

TNext == /\ l < Len(Ev)
         /\ l' = l + 1 /\ tid' = tid
         /\ LET e == Ev[l + 1] IN TAdd(e) \/ TResize(e)

TSpec == TInit /\ [][TNext]_tvars

Accept == (l = Len(Ev)) => PrintT(<<"ACCEPT", Traces[tid].tid>>)
\* diagnostic mode (second pass over rejected traces): longest matched prefix
At == PrintT(<<"AT", Traces[tid].tid, l>>)
=============================================================================
