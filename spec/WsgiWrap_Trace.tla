--------------------------- MODULE WsgiWrap_Trace ---------------------------
(* Record validation for wrapper order: {tid, outer:[types], subs:[[types]], nested, observed:[types]} *)
(* recorded from a real application tree; accepted iff OrderOK(outer, subs, observed).             *)
EXTENDS WsgiWrap, IOUtils
Traces == ndJsonDeserialize(IOEnv.TRACE_FILE)
VARIABLES tid
tvars == <<wvars, tid>>
TInit == tid \in 1..Len(Traces) /\ outerL = <<>> /\ subsL = <<>>
TSpec == TInit /\ [][UNCHANGED tvars]_tvars
Accept == LET r == Traces[tid] IN (IF r.nested THEN OrderOKChain(r.outer, r.subs, r.observed) ELSE OrderOK(r.outer, r.subs, r.observed))
                                  => PrintT(<<"ACCEPT", r.tid>>)
=============================================================================
