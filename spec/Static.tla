------------------------------- MODULE Static -------------------------------
(***************************************************************************)
(* C14: StaticApplication - confinement, completeness, soft faults,        *)
(* conditional requests.                                                   *)
(*                                                                         *)
(* File system (fixed, materialised by the harness):                       *)
(*   application 1 searches root1 then root2; application 2 (mounted under *)
(*   the same prefix AFTER application 1) searches root3.                  *)
(* A request is a sequence of raw path segments after the prefix (names,   *)
(* ".", "..", "" - an empty segment, i.e. a doubled slash - and "...").    *)
(* Serving is a sequence of file-system calls shaped like                  *)
(* StaticApplication.get_file_response / find_file / build_file_response:  *)
(* one action per call; one call per request may be hit by a fault.        *)
(***************************************************************************)
EXTENDS Naturals, Sequences, FiniteSets, TLC, Json

CONSTANTS SegAlphabet, MaxSegs, FaultKinds, ImsKinds

\* the tree: relative path -> content id (0 = no such regular file)
Root1 == [p \in {<<"a.txt">>, <<"d", "b.txt">>, <<"noext">>, <<"d", "bin">>, <<"empty">>} |->
            CASE p = <<"a.txt">> -> 1 [] p = <<"d", "b.txt">> -> 2 [] p = <<"noext">> -> 3 [] p = <<"d", "bin">> -> 4 [] p = <<"empty">> -> 5]
Root2 == [p \in {<<"a.txt">>, <<"only2">>} |-> CASE p = <<"a.txt">> -> 6 [] p = <<"only2">> -> 7]
Root3 == [p \in {<<"a.txt">>, <<"third">>} |-> CASE p = <<"a.txt">> -> 8 [] p = <<"third">> -> 9]
Guessable(p) == p[Len(p)] \in {"a.txt", "b.txt"}        \* mimetypes.guess_type knows the extension

\* os.path.normpath of the relative path "/".join(segs), as a stack machine
RECURSIVE NormStep(_, _)
NormStep(stack, segs) ==
    IF segs = <<>> THEN stack
    ELSE LET s == Head(segs) IN
         IF s = "" \/ s = "." THEN NormStep(stack, Tail(segs))
         ELSE IF s = ".." THEN
                 IF stack # <<>> /\ stack[Len(stack)] # ".." THEN NormStep(SubSeq(stack, 1, Len(stack) - 1), Tail(segs))
                 ELSE NormStep(Append(stack, ".."), Tail(segs))
         ELSE NormStep(Append(stack, s), Tail(segs))
Norm(segs) == NormStep(<<>>, segs)
\* the multi-segment binding only captures up to the last non-empty segment (trailing slashes are eaten
\* by the pattern's tolerant tail), so trailing empty segments never reach the application
RECURSIVE DropTrailingEmpty(_)
DropTrailingEmpty(segs) == IF segs # <<>> /\ segs[Len(segs)] = "" THEN DropTrailingEmpty(SubSeq(segs, 1, Len(segs) - 1)) ELSE segs
\* "/".join(path) is absolute iff the first captured segment is empty (and something follows)
Absolute(segs0) == LET segs == DropTrailingEmpty(segs0) IN Len(segs) >= 2 /\ segs[1] = ""
\* find_file refuses: absolute, or normalised path beginning with ".." (os.pardir prefix: also "..." !)
StartsWithDots(n) == n # <<>> /\ n[1] \in {"..", "..."}
Escapes(segs) == Absolute(segs) \/ StartsWithDots(Norm(segs))

ContentIn(root, n) == IF n \in DOMAIN root THEN root[n] ELSE 0

VARIABLES req,     \* [segs, ims, fault]   fault = [call, kind] ; call "-" = none
          pc, app, found, out

vars == <<req, pc, app, found, out>>
NoFault == [call |-> "-", kind |-> "-"]
Calls == {"isfile1", "imsMtime", "isfile2", "open", "mtime", "size", "peek"}

Init == /\ req \in [segs : UNION {[1..n -> SegAlphabet] : n \in 1..MaxSegs},
                    ims : ImsKinds,
                    fault : {NoFault} \cup [call : Calls, kind : FaultKinds]]
        /\ pc = "resolve" /\ app = 1 /\ found = [root |-> 0, c |-> 0] /\ out = [k |-> "-", status |-> 0, c |-> 0, by |-> 0]

Hit(call) == req.fault.call = call /\ app = 1        \* faults are injected on application 1's files only
Soft(status) == [k |-> "nonbreaking", status |-> status, c |-> 0, by |-> app]

\* get_file_response: join + find_file (normpath, refusal, lookup over the search paths)
Resolve ==
    /\ pc = "resolve"
    /\ IF Escapes(req.segs) THEN out' = Soft(403) /\ pc' = "soft" /\ UNCHANGED found
       ELSE LET n == Norm(req.segs)
                c1 == IF app = 1 THEN ContentIn(Root1, n) ELSE ContentIn(Root3, n)
                c2 == IF app = 1 THEN ContentIn(Root2, n) ELSE 0
                \* a spurious isfile() == False on the first search path makes the lookup fall through
                c1seen == IF Hit("isfile1") THEN 0 ELSE c1
            IN IF c1seen # 0 THEN found' = [root |-> 1, c |-> c1seen] /\ pc' = "ims" /\ UNCHANGED out
               ELSE IF c2 # 0 THEN found' = [root |-> 2, c |-> c2] /\ pc' = "ims" /\ UNCHANGED out
               ELSE out' = Soft(404) /\ pc' = "soft" /\ UNCHANGED found
    /\ UNCHANGED <<req, app>>

\* build_file_response: `if cache_timeout and cached_modify_time: mtime = get_file_mtime(path)`
ImsCheck ==
    /\ pc = "ims"
    /\ IF req.ims = "none" THEN pc' = "isfile2" /\ UNCHANGED out
       ELSE IF Hit("imsMtime") /\ found.root = 1 THEN out' = Soft(403) /\ pc' = "soft"
       ELSE IF req.ims = "fresh" THEN out' = [k |-> "resp", status |-> 304, c |-> 0, by |-> app] /\ pc' = "done"
       ELSE pc' = "isfile2" /\ UNCHANGED out
    /\ UNCHANGED <<req, app, found>>

FaultStep(call, nextpc, status) ==
    /\ pc = call
    /\ IF Hit(call) /\ found.root = 1 THEN out' = Soft(status) /\ pc' = "soft"
       ELSE pc' = nextpc /\ UNCHANGED out
    /\ UNCHANGED <<req, app, found>>

IsFileAgain == FaultStep("isfile2", "open", 404)      \* the file vanished between lookup and open
Open == FaultStep("open", "mtime", 403)
MTime == FaultStep("mtime", "size", 403)
Size == /\ pc = "size"
        /\ IF Hit("size") /\ found.root = 1 THEN out' = Soft(403) /\ pc' = "soft"
           ELSE /\ pc' = (IF ~Guessable(Norm(req.segs)) THEN "peek" ELSE "respond")
                /\ UNCHANGED out
        /\ UNCHANGED <<req, app, found>>
\* files without a guessable type are peeked (read) to tell text from binary
Peek == FaultStep("peek", "respond", 403)
Respond == /\ pc = "respond"
           /\ out' = [k |-> "resp", status |-> 200, c |-> found.c, by |-> app] /\ pc' = "done"
           /\ UNCHANGED <<req, app, found>>

\* a non-breaking error: the next overlapping static application is tried; if none answers, the
\* most recent non-breaking error is the response
Fallthrough ==
    /\ pc = "soft"
    /\ IF app = 1 THEN app' = 2 /\ pc' = "resolve" /\ found' = [root |-> 0, c |-> 0] /\ UNCHANGED out
       ELSE pc' = "done" /\ out' = [out EXCEPT !.k = "resp"] /\ UNCHANGED <<app, found>>
    /\ UNCHANGED req

Next == Resolve \/ ImsCheck \/ IsFileAgain \/ Open \/ MTime \/ Size \/ Peek \/ Respond \/ Fallthrough
Spec == Init /\ [][Next]_vars

(****************************** properties *********************************)
Done == pc = "done"
NeverServerError == Done => out.status \in {200, 304, 403, 404}
\* a 200 always carries the content of a regular file inside a search directory, at its normalised path
Confinement == (Done /\ out.status = 200) =>
                  /\ ~Escapes(req.segs)
                  /\ out.c \in {ContentIn(Root1, Norm(req.segs)), ContentIn(Root2, Norm(req.segs)), ContentIn(Root3, Norm(req.segs))}
                  /\ out.c # 0
EscapeRefused == (Done /\ Escapes(req.segs)) => out.status = 403
\* without faults every regular file is served at its relative path, first search directory winning
Completeness == (Done /\ req.fault = NoFault /\ req.ims # "fresh" /\ ~Escapes(req.segs)) =>
                  LET n == Norm(req.segs) IN
                  IF ContentIn(Root1, n) # 0 THEN out = [k |-> "resp", status |-> 200, c |-> ContentIn(Root1, n), by |-> 1]
                  ELSE IF ContentIn(Root2, n) # 0 THEN out = [k |-> "resp", status |-> 200, c |-> ContentIn(Root2, n), by |-> 1]
                  ELSE IF ContentIn(Root3, n) # 0 THEN out = [k |-> "resp", status |-> 200, c |-> ContentIn(Root3, n), by |-> 2]
                  ELSE out.status = 404
\* a fault on application 1's file is soft: the overlapping application still gets its turn
FaultsAreSoft == (Done /\ req.fault # NoFault /\ ~Escapes(req.segs) /\ ContentIn(Root3, Norm(req.segs)) # 0
                    /\ req.ims # "fresh")
                    => (out.status = 200)
Conditional == (Done /\ req.fault = NoFault /\ req.ims = "fresh" /\ ~Escapes(req.segs)
                  /\ (ContentIn(Root1, Norm(req.segs)) # 0 \/ ContentIn(Root2, Norm(req.segs)) # 0)) => out.status = 304

Emit == Done => PrintT(<<"EMIT", ToJson([req |-> req, out |-> out, norm |-> Norm(req.segs), escapes |-> Escapes(req.segs)])>>)
=============================================================================
