----------------------------- MODULE PathMatch -----------------------------
(***************************************************************************)
(* The segment-assignment semantics of clastic's URL pattern mini-language *)
(* (shared by Dispatch, Slash, Embed, AppHistory; Pattern.tla adds types   *)
(* and slash runs on top of it).                                           *)
(*                                                                         *)
(* A pattern is a sequence of elements                                     *)
(*    [k |-> "lit", v |-> seg]     literal segment                         *)
(*    [k |-> "one",  v |-> name]   <name> / <name:>   exactly one segment  *)
(*    [k |-> "opt",  v |-> name]   <name?>            zero or one          *)
(*    [k |-> "many0", v |-> name]  <name*>            zero or more         *)
(*    [k |-> "many1", v |-> name]  <name+>            one or more          *)
(* A path is a sequence of segments (strings).                             *)
(***************************************************************************)
EXTENDS Naturals, Sequences

RECURSIVE Matches(_, _)
Matches(p, s) ==
    IF p = <<>> THEN s = <<>>
    ELSE LET e == Head(p) IN
         CASE e.k = "lit"   -> s # <<>> /\ Head(s) = e.v /\ Matches(Tail(p), Tail(s))
           [] e.k = "one"   -> s # <<>> /\ Matches(Tail(p), Tail(s))
           [] e.k = "opt"   -> Matches(Tail(p), s) \/ (s # <<>> /\ Matches(Tail(p), Tail(s)))
           [] e.k = "many0" -> Matches(Tail(p), s) \/ (s # <<>> /\ Matches(p, Tail(s)))
           [] e.k = "many1" -> s # <<>> /\ (Matches(Tail(p), Tail(s)) \/ Matches(p, Tail(s)))
=============================================================================
