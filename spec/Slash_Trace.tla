---------------------------- MODULE Slash_Trace ----------------------------
(***************************************************************************)
(* Record validation for C07: each line is one recorded two-step exchange  *)
(* with the real application:                                              *)
(*  {tid, cfg:{appMode,routeMode,inherit,kind,methods},                    *)
(*   req:{path:{els:[{run,seg}],trail}, query, method},                    *)
(*   o1:{k, path:{els,trail}, query, params:[..]}, followed: BOOLEAN,      *)
(*   o2:{k, path, query, params}}                                          *)
(* Segment ids are assigned by the recorder ("a", "b" literals, others     *)
(* "s<n>").  TLC accepts iff both observations are what Dispatch() yields. *)
(***************************************************************************)
EXTENDS Slash, IOUtils

Traces == ndJsonDeserialize(IOEnv.TRACE_FILE)
VARIABLES tid
tvars == <<vars, tid>>
TInit == tid \in 1..Len(Traces) /\ Init
TSpec == TInit /\ [][UNCHANGED tvars]_tvars

Same(o, a) == /\ o.k = a.k
              /\ (a.k = "redirect" => o.path = a.path /\ o.query = a.query)
              /\ (a.k = "exec" => o.params = a.params /\ o.query = a.query)

Conforms(r) ==
    LET a1 == Dispatch(r.cfg, r.req.path, r.req.query, r.req.method)
    IN /\ Same(r.o1, a1)
       /\ (a1.k = "redirect" =>
             /\ r.followed
             /\ LET a2 == Dispatch(r.cfg, a1.path, a1.query, r.req.method)
                IN Same(r.o2, a2) /\ a2.k = "exec" /\ a2.params = SegsOf(r.req.path))
Accept == Conforms(Traces[tid]) => PrintT(<<"ACCEPT", Traces[tid].tid>>)
=============================================================================
