--------------------------- MODULE ErrorFmt_Trace ---------------------------
(* Record validation for C09: each line is the projection of one real error response          *)
(* {tid, cls, code_override, accept:[{r,q}], status, ctype, wellformed, fields_expected:[..],    *)
(*  fields_found:[..], alien:[..]}; accepted iff StatusOK /\ FormatOK /\ BodyOK (ErrorFmt.tla).  *)
EXTENDS ErrorFmt, IOUtils
Traces == ndJsonDeserialize(IOEnv.TRACE_FILE)
VARIABLES tid
TInit == tid \in 1..Len(Traces) /\ acc = <<>>
TSpec == TInit /\ [][UNCHANGED <<acc, tid>>]_<<acc, tid>>
SetOf(s) == {s[i] : i \in DOMAIN s}
Rec(t) == [cls |-> t.cls, code_override |-> t.code_override, accept |-> t.accept, status |-> t.status, ctype |-> t.ctype,
           wellformed |-> t.wellformed, fields_expected |-> SetOf(t.fields_expected), fields_found |-> SetOf(t.fields_found),
           alien |-> SetOf(t.alien)]
Accept == LET r == Rec(Traces[tid]) IN
          IF StatusOK(r) /\ FormatOK(r) /\ BodyOK(r) THEN PrintT(<<"ACCEPT", Traces[tid].tid>>)
          ELSE PrintT(<<"REJECT", Traces[tid].tid, StatusOK(r), FormatOK(r), BodyOK(r)>>)
=============================================================================
