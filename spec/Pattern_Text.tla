---------------------------- MODULE Pattern_Text ----------------------------
(* C05, leg L2: textual patterns are enumerated and emitted with ValidPattern (Pattern.tla);   *)
(* the harness renders each one, calls Route(...) and compares "raises InvalidPattern".       *)
EXTENDS Pattern, Json
CONSTANT MaxParts
TNames == {"x", "y"}
TTypes == {"", "str", "int", "float", "unicode", "bogus", "Int", "int2", "str_"}      \* unknown names of every spelling
TOps == {"", ":", "?", "*", "+", "!", "::"}
Part == {[k |-> "lit", n |-> "-", t |-> "-", op |-> "-"], [k |-> "empty", n |-> "-", t |-> "-", op |-> "-"]}
        \cup {[k |-> "bind", n |-> n, t |-> t, op |-> op] : n \in TNames, t \in TTypes, op \in TOps}
\* "<xint>" would read as a binding named xint: no-operator bindings are rendered without a type
Renderable(p) == p.k = "bind" => (p.op = "" => p.t = "")
TextPats == UNION {[lead : BOOLEAN, trail : BOOLEAN, parts : {f \in [1..n -> Part] : \A k \in 1..n : Renderable(f[k])}]
                   : n \in 1..MaxParts}
VARIABLE tp
TInit == tp \in TextPats
TSpec == TInit /\ [][UNCHANGED tp]_tp
EmitText == PrintT(<<"EMIT", ToJson([tp |-> tp, valid |-> ValidPattern(tp)])>>)
=============================================================================
