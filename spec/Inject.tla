------------------------------- MODULE Inject -------------------------------
(***************************************************************************)
(* C01 / C02 / C04: bind-time dependency injection of clastic.             *)
(*                                                                         *)
(* State = one route configuration under construction: middlewares         *)
(* (application level first, then route level = merge order), their        *)
(* request / endpoint / render functions, every function's parameters      *)
(* (required or defaulted), the three provides tuples, URL bindings,       *)
(* application and route resources.  The configuration is BUILT BY ACTIONS *)
(* in one canonical order, so the reachable states are exactly the         *)
(* configurations within the budgets (the state graph is a tree).          *)
(*                                                                         *)
(* Layers:                                                                 *)
(*   declarative   Resolvable / Conflict / Malformed / Cyclic / Allowed,   *)
(*                 SpecKw (which source feeds which parameter)             *)
(*   algorithmic   Algo* : the set arithmetic of sinter.chain_argspec,     *)
(*                 sinter.make_chain, sinter.build_chain_str and           *)
(*                 middleware.core.make_middleware_chain, as folds         *)
(* TLC checks algorithm == declaration on every configuration (AlgoSound,  *)
(* AlgoComplete, AlgoPassesSame).  Configurations leave TLC through Emit   *)
(* and are replayed into real Applications; recorded configurations from   *)
(* the implementation are validated by Inject_Trace.                       *)
(***************************************************************************)
EXTENDS Naturals, Sequences, FiniteSets, TLC, Json

CONSTANTS MaxMw,        \* at most this many middlewares (app level + route level)
          ParamNames,   \* names usable as parameters of any function
          ProvNames,    \* names usable in provides tuples
          UrlNames,     \* names usable as URL bindings
          ResNames,     \* names usable as application / route resources
          ParamBudget,  \* total number of parameters over all functions
          ProvBudget,   \* total number of provided names over all middlewares
          BareBudget,   \* functions that exist without any parameter but `next`
          SrcBudget,    \* total number of URL bindings + resources
          Defects       \* which malformations the builder may inject: subset of {"mwnext", "epnext"}

Reserved == {"request", "_application", "_route", "_dispatch_state", "context", "next"}
ReqBuiltins == {"request", "_application", "_route", "_dispatch_state"}
AllNames == ParamNames \cup ProvNames \cup UrlNames \cup ResNames \cup Reserved \cup {"_ignored"}

\* canonical order of names (for the canonical builder order)
NameSeq == LET RECURSIVE S(_)
               S(X) == IF X = {} THEN <<>> ELSE LET x == CHOOSE y \in X : TRUE IN <<x>> \o S(X \ {x})
           IN S(AllNames)
Idx(nm) == CHOOSE k \in 1..Len(NameSeq) : NameSeq[k] = nm
NN == Len(NameSeq)

VARIABLES n,        \* number of middlewares
          nApp,     \* the first nApp are application-level, the rest route-level
          P,        \* parameters: set of [f, n, d]  (function id, name, has default)
          V,        \* provides:   set of [m, ph, n]  (middleware, phase 1..3, name)
          bare,     \* set of <<m, ph>>: functions that exist with `next` as only parameter
          url, res, rres,   \* URL bindings, application resources, route resources
          hasRender,        \* the route has an explicit render function
          bad,      \* injected malformation: [k |-> "none" | "mwnext" (a = m, b = ph) | "epnext" (a = f)]
          lastS, lastP, lastV   \* canonical-order cursors

vars == <<n, nApp, P, V, bare, url, res, rres, hasRender, bad, lastS, lastP, lastV>>

NoBad == [k |-> "none", a |-> 0, b |-> 0]
Fid(m, ph) == (m - 1) * 3 + ph
EPF == 3 * MaxMw + 1
RNF == 3 * MaxMw + 2
MwFids == {Fid(m, ph) : m \in 1..n, ph \in 1..3}
Fids == MwFids \cup {EPF} \cup (IF hasRender THEN {RNF} ELSE {})

Params(f) == {p \in P : p.f = f}
ReqOf(f) == {p.n : p \in {q \in Params(f) : ~q.d}}
OptOf(f) == {p.n : p \in {q \in Params(f) : q.d}}
NamesOf(f) == {p.n : p \in Params(f)}
Exists(m, ph) == Params(Fid(m, ph)) # {} \/ <<m, ph>> \in bare
Prov(m, ph) == {v.n : v \in {w \in V : w.m = m /\ w.ph = ph}}
\* provides that are effective: only a middleware that HAS the phase function provides in that phase
EProv(m, ph) == IF Exists(m, ph) THEN Prov(m, ph) ELSE {}

(***************************** construction ********************************)
Init == /\ n \in 0..MaxMw
        /\ nApp \in 0..n
        /\ P = {} /\ V = {} /\ bare = {}
        /\ url = {} /\ res = {} /\ rres = {}
        /\ hasRender \in BOOLEAN
        /\ bad = NoBad
        /\ lastS = 0 /\ lastP = 0 /\ lastV = 0

PSlot(f, nm) == (f - 1) * NN + Idx(nm)
VSlot(m, ph, nm) == (Fid(m, ph) - 1) * NN + Idx(nm)

NoSrc == url = {} /\ res = {} /\ rres = {}
\* canonical stage order: parameters, bare functions, provides, sources, malformation
\* sources: URL bindings, application resources, route resources
AddSrc(kind, nm) ==
    /\ bad = NoBad
    /\ Cardinality(url) + Cardinality(res) + Cardinality(rres) < SrcBudget
    /\ LET slot == (kind - 1) * NN + Idx(nm) IN
         /\ slot > lastS
         /\ lastS' = slot
    /\ CASE kind = 1 -> nm \in UrlNames /\ url' = url \cup {nm} /\ UNCHANGED <<res, rres>>
         [] kind = 2 -> nm \in ResNames /\ res' = res \cup {nm} /\ UNCHANGED <<url, rres>>
         [] kind = 3 -> nm \in ResNames \ res /\ rres' = rres \cup {nm} /\ UNCHANGED <<url, res>>
    /\ UNCHANGED <<n, nApp, P, V, bare, hasRender, bad, lastP, lastV>>

AddParam(f, nm, d) ==
    /\ lastV = 0 /\ bare = {} /\ NoSrc /\ bad = NoBad      \* parameters first
    /\ Cardinality(P) < ParamBudget
    /\ PSlot(f, nm) > lastP
    /\ P' = P \cup {[f |-> f, n |-> nm, d |-> d]}
    /\ lastP' = PSlot(f, nm)
    /\ UNCHANGED <<n, nApp, V, bare, url, res, rres, hasRender, bad, lastS, lastV>>

AddBare(m, ph) ==
    /\ lastV = 0 /\ NoSrc /\ bad = NoBad
    /\ Cardinality(bare) < BareBudget
    /\ Params(Fid(m, ph)) = {}
    /\ \A b \in bare : Fid(b[1], b[2]) < Fid(m, ph)
    /\ bare' = bare \cup {<<m, ph>>}
    /\ UNCHANGED <<n, nApp, P, V, url, res, rres, hasRender, bad, lastS, lastP, lastV>>

AddProv(m, ph, nm) ==
    /\ NoSrc /\ bad = NoBad
    /\ Cardinality(V) < ProvBudget
    /\ VSlot(m, ph, nm) > lastV
    /\ V' = V \cup {[m |-> m, ph |-> ph, n |-> nm]}
    /\ lastV' = VSlot(m, ph, nm)
    /\ UNCHANGED <<n, nApp, P, bare, url, res, rres, hasRender, bad, lastS, lastP>>

\* a middleware function whose first parameter is not `next` (C04)
BreakMwNext(m, ph) ==
    /\ "mwnext" \in Defects /\ bad = NoBad /\ Exists(m, ph)
    /\ bad' = [k |-> "mwnext", a |-> m, b |-> ph]
    /\ UNCHANGED <<n, nApp, P, V, bare, url, res, rres, hasRender, lastS, lastP, lastV>>

\* an endpoint / render function that takes `next` (C04)
BreakEpNext(f) ==
    /\ "epnext" \in Defects /\ bad = NoBad /\ f \in {EPF} \cup (IF hasRender THEN {RNF} ELSE {})
    /\ bad' = [k |-> "epnext", a |-> f, b |-> 0]
    /\ UNCHANGED <<n, nApp, P, V, bare, url, res, rres, hasRender, lastS, lastP, lastV>>

Next == \/ \E kind \in 1..3, nm \in UrlNames \cup ResNames : AddSrc(kind, nm)
        \/ \E f \in Fids, nm \in ParamNames, d \in BOOLEAN : AddParam(f, nm, d)
        \/ \E m \in 1..n, ph \in 1..3 : AddBare(m, ph)
        \/ \E m \in 1..n, ph \in 1..3, nm \in ProvNames : AddProv(m, ph, nm)
        \/ \E m \in 1..n, ph \in 1..3 : BreakMwNext(m, ph)
        \/ \E f \in {EPF, RNF} : BreakEpNext(f)

Spec == Init /\ [][Next]_vars

(************************** declarative layer ******************************)
\* The two routes every application has: the configured one and the built-in catch-all
Routes == {"main", "null"}
MwsOf(R) == IF R = "main" THEN 1..n ELSE 1..nApp
UrlOf(R) == IF R = "main" THEN url ELSE {"_ignored"}
ResOf(R) == IF R = "main" THEN res \cup rres ELSE res
Base(R) == UrlOf(R) \cup ResOf(R) \cup ReqBuiltins

ReqProvBefore(R, m) == UNION {EProv(j, 1) : j \in {k \in MwsOf(R) : k < m}}
AllReqProv(R) == UNION {EProv(j, 1) : j \in MwsOf(R)}
EpProvBefore(R, m) == UNION {EProv(j, 2) : j \in {k \in MwsOf(R) : k < m}}
RnProvBefore(R, m) == UNION {EProv(j, 3) : j \in {k \in MwsOf(R) : k < m}}

\* what is available, by name, to the function of middleware m in phase ph
\* (m = n + 1 stands for the innermost function: endpoint in phase 2, render in phase 3)
Avail(R, m, ph) ==
    CASE ph = 1 -> Base(R) \cup ReqProvBefore(R, m)
      [] ph = 2 -> Base(R) \cup AllReqProv(R) \cup EpProvBefore(R, m)
      [] ph = 3 -> Base(R) \cup AllReqProv(R) \cup {"context"} \cup RnProvBefore(R, m)

Inner == n + 1
\* the chain functions of route R as <<m, ph, f>> triples
ChainFuncs(R) == {<<m, ph, Fid(m, ph)>> : m \in MwsOf(R), ph \in 1..3}
ExistingChain(R) == {t \in ChainFuncs(R) : Exists(t[1], t[2])}
                    \cup (IF R = "main" THEN {<<Inner, 2, EPF>>} \cup (IF hasRender THEN {<<Inner, 3, RNF>>} ELSE {})
                          ELSE {})

Resolvable(R) == \A t \in ExistingChain(R) : ReqOf(t[3]) \subseteq Avail(R, t[1], t[2])
Unresolved == ~(Resolvable("main") /\ Resolvable("null"))

\* number of sources offering a name on route R (built-ins are a source; each provides tuple counts)
Offers(R, nm) ==
    (IF nm \in UrlOf(R) THEN 1 ELSE 0) + (IF nm \in ResOf(R) THEN 1 ELSE 0) + (IF nm \in Reserved THEN 1 ELSE 0)
    + Cardinality({v \in V : v.n = nm /\ v.m \in MwsOf(R)})
Conflict == \E R \in Routes : \E nm \in AllNames : Offers(R, nm) > 1

NextInEpRn == bad.k = "epnext"
MwNextBad == bad.k = "mwnext"

\* dependency graph of BoundRoute._resolve_required_args (over-approximated: all parameters)
Edge(a, b) == \E v \in V : v.n = a /\ (b \in NamesOf(Fid(v.m, v.ph)))
RECURSIVE Reach(_, _)
Reach(S, k) == IF k = 0 THEN S ELSE Reach(S \cup {b \in AllNames : \E a \in S : Edge(a, b)}, k - 1)
Cyclic == \E a \in {v.n : v \in V} :
             a \in Reach({b \in AllNames : Edge(a, b)}, Cardinality(V) + 1)

\* permitted construction outcomes
Allowed ==
    LET ne == Conflict \/ Unresolved \/ NextInEpRn
        te == MwNextBad
    IN IF ~ne /\ ~te THEN (IF Cyclic THEN {"ok", "rejected"} ELSE {"ok"})
       ELSE IF ne /\ ~te /\ ~Cyclic THEN {"NameError"}
       ELSE {"rejected"}

\* C02: the source of parameter nm for the function <<m, ph>> on route R
Provider(R, nm, m, ph) ==
    CHOOSE t \in {<<j, q>> : j \in MwsOf(R), q \in 1..3} :
        /\ nm \in EProv(t[1], t[2])
        /\ \/ (t[2] = 1 /\ (ph > 1 \/ t[1] < m))
           \/ (t[2] = ph /\ ph > 1 /\ t[1] < m)
SourceTag(R, nm, m, ph) ==
    IF nm \in UrlOf(R) THEN <<"url", nm, 0, 0>>
    ELSE IF nm \in ResOf(R) THEN <<"res", nm, 0, 0>>
    ELSE IF nm \in ReqBuiltins THEN <<"builtin", nm, 0, 0>>
    ELSE IF nm = "context" /\ ph = 3 THEN <<"epresult", nm, 0, 0>>
    ELSE LET t == Provider(R, nm, m, ph) IN <<"mw", nm, t[1], t[2]>>
SpecKw(R, t) == {[n |-> p.n, src |-> IF p.n \in Avail(R, t[1], t[2]) THEN SourceTag(R, p.n, t[1], t[2])
                                     ELSE <<"default", p.n, 0, 0>>] : p \in Params(t[3])}
SpecPassed(R, t) == {p.n : p \in {q \in Params(t[3]) : q.n \in Avail(R, t[1], t[2])}}

(************************** algorithmic layer ******************************)
\* sequences of middleware indices that have the phase function, in merge order
RECURSIVE MwSeq(_, _, _)
MwSeq(R, ph, m) == IF m > n THEN <<>>
                   ELSE IF m \in MwsOf(R) /\ Exists(m, ph) THEN <<m>> \o MwSeq(R, ph, m + 1)
                   ELSE MwSeq(R, ph, m + 1)

\* sinter.chain_argspec: fold over the chain; returns [req, opt]
\* funcs: sequence of [req, opt] (required / defaulted names incl. "next" for middleware functions)
\* provs: sequence of provided-name sets
RECURSIVE ChainArgspec(_, _, _, _, _)
ChainArgspec(funcs, provs, provided, required, optional) ==
    IF funcs = <<>> THEN [req |-> required, opt |-> optional]
    ELSE ChainArgspec(Tail(funcs), Tail(provs),
                      provided \cup Head(provs),
                      required \cup (Head(funcs).req \ provided),
                      optional \cup Head(funcs).opt)

\* sinter.make_chain
MakeChain(funcs, provs, final, preprovided) ==
    LET ca == ChainArgspec(Append(funcs, final), Append(provs, {}), {"next"}, {}, {})
    IN [unres |-> ca.req \ preprovided,
        args  |-> ca.req \cup (preprovided \cap ca.opt)]

MwFunc(m, ph) == [req |-> ReqOf(Fid(m, ph)) \cup {"next"}, opt |-> OptOf(Fid(m, ph))]
FuncsOf(R, ph) == LET s == MwSeq(R, ph, 1) IN [k \in 1..Len(s) |-> MwFunc(s[k], ph)]
ProvsOf(R, ph) == LET s == MwSeq(R, ph, 1) IN [k \in 1..Len(s) |-> Prov(s[k], ph)]

EpFinal(R) == IF R = "main" THEN [req |-> ReqOf(EPF), opt |-> OptOf(EPF)]
              ELSE [req |-> ReqBuiltins, opt |-> {}]
RnFinal(R) == IF R = "main" /\ hasRender THEN [req |-> ReqOf(RNF), opt |-> OptOf(RNF)]
              ELSE [req |-> {"context"}, opt |-> {}]      \* _noop_render(context)

\* middleware.core.make_middleware_chain
Algo(R) ==
    LET preprovided == UrlOf(R) \cup Reserved \cup ResOf(R)
        reqAvail == preprovided \ {"next", "context"}
        reqAll == UNION {ProvsOf(R, 1)[k] : k \in DOMAIN ProvsOf(R, 1)}
        epAvail == reqAvail \cup reqAll
        epc == MakeChain(FuncsOf(R, 2), ProvsOf(R, 2), EpFinal(R), epAvail)
        rnAvail == epAvail \cup {"context"}
        rnc == MakeChain(FuncsOf(R, 3), ProvsOf(R, 3), RnFinal(R), rnAvail)
        reqArgs == (epc.args \cup rnc.args) \ {"context"}
        rqc == MakeChain(FuncsOf(R, 1), ProvsOf(R, 1), [req |-> reqArgs, opt |-> {}], reqAvail)
    IN [ok |-> epc.unres = {} /\ rnc.unres = {} /\ rqc.unres = {},
        epArgs |-> epc.args, rnArgs |-> rnc.args, reqArgs |-> reqArgs, rqArgs |-> rqc.args]

AlgoOK == Algo("main").ok /\ Algo("null").ok

\* sinter.build_chain_str: the names passed to the function at position k of a chain whose outer
\* parameter list is `args`: its declared names that are in {next} + args + provides of levels before k
PassedAt(args, provs, k, declared) ==
    declared \cap ({"next"} \cup args \cup UNION {provs[j] : j \in 1..(k - 1)})

Pos(s, m) == CHOOSE k \in DOMAIN s : s[k] = m
AlgoPassed(R, t) ==
    LET a == Algo(R)
        m == t[1]  ph == t[2]
        s == MwSeq(R, ph, 1)
        args == CASE ph = 1 -> a.rqArgs [] ph = 2 -> a.epArgs [] ph = 3 -> a.rnArgs
        k == IF m = Inner THEN Len(s) + 1 ELSE Pos(s, m)
    IN PassedAt(args, ProvsOf(R, ph), k, NamesOf(t[3])) \ {"next"}

(****************************** properties *********************************)
WellFormed == bad = NoBad
\* the algorithm accepts exactly the resolvable configurations (on conflict-free, well-formed ones;
\* conflicts and malformations are rejected before the chain is built)
AlgoSound    == (WellFormed /\ ~Conflict /\ AlgoOK) => ~Unresolved
AlgoComplete == (WellFormed /\ ~Conflict /\ ~Unresolved) => AlgoOK
\* on accepted configurations the generated code passes to every function exactly the names the
\* declarative rule says are available to it, so no call can have a missing or unexpected argument
AlgoPassesSame ==
    (WellFormed /\ ~Conflict /\ ~Unresolved) =>
        \A R \in Routes : \A t \in ExistingChain(R) : AlgoPassed(R, t) = SpecPassed(R, t)
NoMissingArg ==
    (WellFormed /\ ~Conflict /\ ~Unresolved) =>
        \A R \in Routes : \A t \in ExistingChain(R) : ReqOf(t[3]) \subseteq SpecPassed(R, t)
\* a source is unique whenever the configuration is accepted (C02/C04)
UniqueSource ==
    (~Conflict) => \A R \in Routes : \A nm \in AllNames : Offers(R, nm) <= 1
TypeOK == n \in 0..MaxMw /\ nApp \in 0..n /\ Cardinality(P) <= ParamBudget /\ Cardinality(V) <= ProvBudget

(******************************* emission **********************************)
CallsOf(R) == {[m |-> t[1], ph |-> t[2], kw |-> SpecKw(R, t)] : t \in ExistingChain(R)}
Rec == [n |-> n, nApp |-> nApp, EPF |-> EPF, RNF |-> RNF, P |-> P, V |-> V, bare |-> bare, url |-> url, res |-> res, rres |-> rres,
        hasRender |-> hasRender, bad |-> bad, allowed |-> Allowed, cyclic |-> Cyclic,
        conflict |-> Conflict, unresolved |-> Unresolved,
        calls |-> IF "ok" \in Allowed THEN [main |-> CallsOf("main"), null |-> CallsOf("null")]
                  ELSE [main |-> {}, null |-> {}]]
Emit == PrintT(<<"EMIT", ToJson(Rec)>>)
\* only accepted configurations in which some parameter is fed by a source (C02 replay)
\* accepted configurations in which one middleware function provides SEVERAL names (next() may then be called
\* positionally in the declared order of the provides tuple)
EmitMulti == (Allowed = {"ok"} /\ P # {} /\ \E v1, v2 \in V : v1 # v2 /\ v1.m = v2.m /\ v1.ph = v2.ph /\ Exists(v1.m, v1.ph))
                => PrintT(<<"EMIT", ToJson(Rec)>>)
\* rejected configurations in which ONE phase of the main route misses SEVERAL names (the error report lists them all;
\* it must still be a NameError)
MissingIn(R, ph) == UNION {ReqOf(t[3]) \ Avail(R, t[1], t[2]) : t \in {x \in ExistingChain(R) : x[2] = ph}}
EmitUnres == (Allowed = {"NameError"} /\ ~Conflict /\ \E ph \in 1..3 : Cardinality(MissingIn("main", ph)) >= 2)
                => PrintT(<<"EMIT", ToJson(Rec)>>)
\* accepted configurations in which a function has a DEFAULTED parameter whose name is not in scope where the function
\* runs but is provided elsewhere (by a deeper middleware, a later phase, another route): it must keep its default
LateNames(R) == {nm \in AllNames : \E t \in ExistingChain(R) : nm \in (NamesOf(t[3]) \ ReqOf(t[3])) /\ nm \notin Avail(R, t[1], t[2])
                                   /\ \E v \in V : v.n = nm}
EmitLate == (Allowed = {"ok"} /\ LateNames("main") # {}) => PrintT(<<"EMIT", ToJson(Rec)>>)
\* malformed middlewares whose FIRST defined function is fine and a LATER one does not take `next` first (every function of
\* a middleware is checked, not only the first)
EmitMwNextLater == (bad.k = "mwnext" /\ \E ph \in 1..3 : ph < bad.b /\ Exists(bad.a, ph)) => PrintT(<<"EMIT", ToJson(Rec)>>)
\* the error renderer (ErrorHandler.render_error / Route(render_error=...)) runs outside every phase: it may take the request
\* built-ins, the resources in scope where it is installed (the application's for an ErrorHandler, the route's own for
\* Route(render_error=...)) and `_error` - not `context`, not `next`, nothing a middleware provides
ErrCandidates == {"context", "next", "_route", "_application", "_dispatch_state", "u1", "u2", "u3"}
ErrAvail == ReqBuiltins \cup res \cup {"_error"}
EmitErrNames == (P = {} /\ V = {} /\ bare = {} /\ url = {} /\ rres = {} /\ bad = NoBad) =>
                   PrintT(<<"EMIT", ToJson([res |-> res, names |-> [nm \in ErrCandidates |-> nm \in ErrAvail]])>>)
EmitOk == (Allowed = {"ok"} /\ P # {} /\ (V # {} \/ ~NoSrc)) => PrintT(<<"EMIT", ToJson(Rec)>>)
=============================================================================
