---------------------------- MODULE Cookie_Trace ----------------------------
(***************************************************************************)
(* Trace validation for C16.  Each line: {tid, ev:[...]} with events       *)
(*  {a:"req", c, op:{o,key,val}, seen:{key: val or "-"}, reissue, status}  *)
(*  {a:"tick", n} {a:"tamper"|"forge", c, kind} {a:"replay", c, n}         *)
(* recorded against the real SignedCookieMiddleware with an injected clock;*)
(* `seen` is the cookie content the endpoint received, `reissue` whether   *)
(* the response carried a Set-Cookie.  Replayed token numbers refer to the *)
(* order in which the server issued tokens.                                *)
(***************************************************************************)
EXTENDS Cookie, IOUtils
Traces == ndJsonDeserialize(IOEnv.TRACE_FILE)
VARIABLES tid, l
tvars == <<vars, tid, l>>
TInit == tid \in 1..Len(Traces) /\ l = 0 /\ Init
Ev == Traces[tid].ev
SeenOf(e) == [k \in Keys |-> e.seen[k]]
TNext == /\ l < Len(Ev) /\ l' = l + 1 /\ tid' = tid
         /\ LET e == Ev[l + 1] IN
              \/ /\ e.a = "req" /\ e.status = 200
                 /\ SeenOf(e) = Present(jar[e.c])             \* exactly the server-signed, unexpired data (or nothing)
                 /\ Req(e.c, e.op, e.reissue)
              \/ e.a = "tick" /\ Tick(e.n)
              \/ e.a = "tamper" /\ Tamper(e.c, e.kind)
              \/ e.a = "forge" /\ Forge(e.c, e.kind)
              \/ e.a = "replay" /\ Replay(e.c, e.n)
TSpec == TInit /\ [][TNext]_tvars
Accept == (l = Len(Ev)) => PrintT(<<"ACCEPT", Traces[tid].tid>>)
At == PrintT(<<"AT", Traces[tid].tid, l>>)
=============================================================================
