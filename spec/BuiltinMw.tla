----------------------------- MODULE BuiltinMw -----------------------------
(***************************************************************************)
(* C15: built-in middlewares never change what the client receives.        *)
(*                                                                         *)
(* A configuration is a stack (ordered, each type once) of built-in        *)
(* middlewares in default configuration over a fixed scenario application. *)
(* A request is a scenario (what the application code does) and an         *)
(* Accept-Encoding class.  The response travels outward through the stack, *)
(* one action per middleware; the only middleware allowed to touch the     *)
(* representation is gzip, and only for clients that accept gzip.          *)
(***************************************************************************)
EXTENDS Naturals, Sequences, FiniteSets, TLC, Json

CONSTANTS Mws, Scenarios, AEs, MaxStack

\* does the client accept gzip?  (quality of "gzip", or of "*", greater than zero)
AcceptsGzip(ae) == ae \in {"gzip", "star", "deflate_gzip_q05", "gzip_q1_identity_q0"}
\* response bodies that are worth compressing (large and compressible); gzip may still decline others
Compressible(s) == s \in {"ok200big", "ctxbig", "ok200vary"}
StatusOf(s) == CASE s \in {"ok200vary", "ok200prof", "ok200", "ok200big", "ok200random", "ok200empty", "ctx", "ctxbig", "head"} -> 200
                 [] s = "redirect" -> 302
                 [] s \in {"raise404", "ret404", "nb404", "unknown404"} -> 404
                 [] s = "wrong405" -> 405 [] s = "raise503" -> 503 [] s = "ret418" -> 418 [] s = "uncaught500" -> 500

VARIABLES stack, scen, ae, pos, resp
vars == <<stack, scen, ae, pos, resp>>
\* resp: [status, body ("orig" = the bytes the application produced), encoded, vary]
Init == /\ stack \in {s \in UNION {[1..n -> Mws] : n \in 0..MaxStack} : \A i, j \in DOMAIN s : i # j => s[i] # s[j]}
        /\ scen \in Scenarios /\ ae \in AEs
        /\ pos = Len(stack) + 1        \* the application has answered; the response now travels outward
        /\ resp = [status |-> StatusOf(scen), body |-> "orig", encoded |-> FALSE, vary |-> FALSE]

\* the response passes middleware stack[pos - 1]
Pass == /\ pos > 1
        /\ LET m == stack[pos - 1] IN
           IF m = "gzip" /\ AcceptsGzip(ae)
           THEN \/ resp' = [resp EXCEPT !.encoded = TRUE, !.vary = TRUE]      \* compress (lossless)
                \/ (~Compressible(scen) /\ resp' = [resp EXCEPT !.vary = TRUE])  \* or decline: not worth it
           ELSE resp' = resp                     \* every other middleware leaves status and body alone
        /\ pos' = pos - 1
        /\ UNCHANGED <<stack, scen, ae>>
Next == Pass
Spec == Init /\ [][Next]_vars

Delivered == pos = 1
Transparent == Delivered => (resp.status = StatusOf(scen) /\ resp.body = "orig")
EncodedOnlyIfAccepted == resp.encoded => AcceptsGzip(ae) /\ (\E i \in DOMAIN stack : stack[i] = "gzip")
VaryWhenEncoded == resp.encoded => resp.vary

(* the verdict on an observed exchange (BuiltinMw_Trace):
   o = [status, base_status, decoded_same, encoded, ce_gzip, cl_matches, vary_ae, has_gzip] *)
ObsOK(o, aecls) ==
    /\ o.status = o.base_status
    /\ o.decoded_same
    /\ (o.encoded => AcceptsGzip(aecls) /\ o.has_gzip /\ o.ce_gzip /\ o.cl_matches /\ o.vary_ae)
    /\ (~AcceptsGzip(aecls) => ~o.encoded)
Emit == (pos = Len(stack) + 1) => PrintT(<<"EMIT", ToJson([stack |-> stack, scen |-> scen, ae |-> ae,
                                                           accepts |-> AcceptsGzip(ae)])>>)
=============================================================================
