------------------------------ MODULE ParamMw ------------------------------
(***************************************************************************)
(* Beyond the listed properties: the functional meaning of the small       *)
(* built-in middlewares that FEED values into a request                    *)
(*   GetParamMiddleware / PostDataMiddleware  (middleware/url.py, form.py) *)
(*   ContextProcessor / SimpleContextProcessor (middleware/context.py)     *)
(* C15 only says that installing them does not change responses; this      *)
(* module says what they are FOR.  One request = the sequence of actions   *)
(*   Extract   the parameter middleware reads the query / the form and     *)
(*             provides one value per declared name (None when absent or   *)
(*             when the declared type rejects the text),                   *)
(*   Endpoint  the endpoint returns a context (a mapping with some names   *)
(*             preset) or something that is not a mapping,                 *)
(*   Process   the context processor fills the declared names into a       *)
(*             mapping context (never into anything else).                 *)
(* The model is deterministic: TLC emits the final context and the harness *)
(* compares the real application's with it.                                *)
(***************************************************************************)
EXTENDS Naturals, Sequences, FiniteSets, TLC, Json

CONSTANTS Names,       \* parameter names
          Forms        \* how a name occurs in the request: subset of AllForms

AllForms == {"absent", "num", "text", "empty", "multi"}
\* the text a form stands for (first value counts)
FirstText(f) == CASE f = "num" -> "7" [] f = "text" -> "x7" [] f = "empty" -> "" [] f = "multi" -> "8" [] OTHER -> "-"
\* werkzeug MultiDict.get(name, None, type): the first value converted by `type`; None when the name is missing or the
\* conversion raises ValueError
Extracted(f, ty) ==
    IF f = "absent" THEN [k |-> "none", v |-> ""]
    ELSE IF ty = "str" THEN [k |-> "str", v |-> FirstText(f)]
    ELSE IF f \in {"num", "multi"} THEN [k |-> "int", v |-> FirstText(f)]      \* int("7") / int("8")
    ELSE [k |-> "none", v |-> ""]                                             \* int("x7"), int("") raise ValueError

None == [k |-> "none", v |-> ""]
Preset(n) == [k |-> "preset", v |-> n]      \* value the endpoint put into the context under name n
Default(n) == [k |-> "default", v |-> n]    \* the ContextProcessor's declared default for n

VARIABLES cfg,    \* [src: "get"|"post", types: [Names -> {"str","int","-"}]   ("-" = not declared),
                  \*  req: SUBSET Names (required), defs: SUBSET Names (names with a default), overwrite: BOOLEAN]
          rq,     \* [method: "GET"|"POST", occ: [Names -> Forms], where: "query"|"form"]
          ctxk,   \* kind of the endpoint's result: "map" | "str" | "resp"
          pre,    \* names preset by the endpoint in a mapping context
          preNone,\* those of them whose preset value is None (present in the mapping all the same)
          pc, prov, ctx

vars == <<cfg, rq, ctxk, pre, preNone, pc, prov, ctx>>

Declared(c) == {n \in Names : c.types[n] # "-"}
\* well-formed configurations: a name is required XOR defaulted; required names must have a source (the parameter
\* middleware) - otherwise construction fails (that is C01, not modelled again here)
WellFormed(c) == /\ c.req \cap c.defs = {}
                 /\ c.req \subseteq Declared(c)

Init == /\ cfg \in {c \in [src : {"get", "post"}, types : [Names -> {"str", "int", "-"}],
                          req : SUBSET Names, defs : SUBSET Names, overwrite : BOOLEAN] : WellFormed(c)}
        /\ rq \in [method : {"GET", "POST"}, occ : [Names -> Forms], where : {"query", "form"}]
        /\ rq.where = "form" => rq.method = "POST"
        /\ ctxk \in {"map", "str", "resp"}
        /\ pre \in SUBSET Names
        /\ (ctxk # "map" => pre = {})
        /\ preNone \in SUBSET pre
        /\ pc = "extract" /\ prov = [n \in Names |-> None] /\ ctx = [n \in Names |-> [k |-> "missing", v |-> ""]]

\* does the middleware look where the request put its values?
Looks(c, q) == (c.src = "get" /\ q.where = "query") \/ (c.src = "post" /\ q.where = "form")

Extract ==
    /\ pc = "extract"
    /\ prov' = [n \in Names |-> IF n \in Declared(cfg) /\ Looks(cfg, rq) THEN Extracted(rq.occ[n], cfg.types[n]) ELSE None]
    /\ pc' = "endpoint"
    /\ UNCHANGED <<cfg, rq, ctxk, pre, preNone, ctx>>

Endpoint ==
    /\ pc = "endpoint"
    /\ ctx' = [n \in Names |-> IF n \in preNone THEN None ELSE IF n \in pre THEN Preset(n) ELSE [k |-> "missing", v |-> ""]]
    /\ pc' = IF ctxk = "resp" THEN "done" ELSE "process"       \* a Response from the endpoint skips the render phase
    /\ UNCHANGED <<cfg, rq, ctxk, pre, preNone, prov>>

\* process_render_context: only mappings are touched; a name already in the context is kept unless overwrite;
\* the value is the one in scope (the parameter middleware's, if it declares the name - even when that value is None)
\* else the declared default
Process ==
    /\ pc = "process"
    /\ ctx' = IF ctxk # "map" THEN ctx
              ELSE [n \in Names |->
                      IF n \notin (cfg.req \cup cfg.defs) THEN ctx[n]
                      ELSE IF ~cfg.overwrite /\ n \in pre THEN ctx[n]
                      ELSE IF n \in Declared(cfg) THEN prov[n]
                      ELSE Default(n)]
    /\ pc' = "done"
    /\ UNCHANGED <<cfg, rq, ctxk, pre, preNone, prov>>

Next == Extract \/ Endpoint \/ Process
Spec == Init /\ [][Next]_vars

(***************************** properties *********************************)
\* the endpoint's own values survive unless overwrite was asked for
PresetVal(n) == IF n \in preNone THEN None ELSE Preset(n)
PresetKept == (pc = "done" /\ ~cfg.overwrite) => \A n \in pre : ctx[n] = PresetVal(n)      \* a preset None is a preset value
\* every declared context name is present in a mapping context afterwards
Filled == (pc = "done" /\ ctxk = "map") => \A n \in cfg.req \cup cfg.defs : ctx[n].k # "missing"
\* nothing but the declared names is ever written
OnlyDeclared == pc = "done" => \A n \in Names \ (cfg.req \cup cfg.defs) : ctx[n] = (IF n \in pre THEN PresetVal(n) ELSE [k |-> "missing", v |-> ""])
\* a value of the wrong type never reaches the application: int-typed names are ints or None
Typed == \A n \in Names : cfg.types[n] = "int" => prov[n].k \in {"int", "none"}
\* the middleware that reads the form sees nothing of the query and vice versa
NoCrossTalk == (pc # "extract" /\ ~Looks(cfg, rq)) => \A n \in Names : prov[n] = None

Emit == pc = "done" => PrintT(<<"EMIT", ToJson([cfg |-> cfg, rq |-> rq, ctxk |-> ctxk, pre |-> pre, preNone |-> preNone, prov |-> prov, ctx |-> ctx])>>)
=============================================================================
