------------------------------ MODULE WsgiWrap ------------------------------
(***************************************************************************)
(* C13, part 2 - wsgi_wrapper order: an application tree (outer            *)
(* application with a middleware list, embedded sibling applications with  *)
(* their own lists); the wrappers around the WSGI callable must be a       *)
(* linear extension of the documented partial order, each unique type once.*)
(***************************************************************************)
EXTENDS Naturals, Sequences, FiniteSets, TLC, Json
CONSTANTS NonUnique,     \* wrapper-carrying types whose class sets unique = False
          WTypes,        \* wrapper-carrying middleware types
          PlainTypes,    \* middleware types without a wsgi_wrapper
          MaxList

\* an application tree: outer list + a sequence of embedded sibling applications (each a list)
\* all types unique + reorderable (the default)
Lists == UNION {[1..k -> WTypes \cup PlainTypes] : k \in 0..MaxList}
NoDup(l) == \A i, j \in DOMAIN l : i # j => l[i] # l[j]

\* the documented partial order on wrapper types:
\*  - within a list, earlier is outer;  - the embedding application's wrappers are outer to an embedded
\*    application's;  - a type contributed by several lists is applied once, at its outermost position
\*  (sibling embedded applications are not ordered with respect to each other)
Wrappers(outer, subs) == {t \in WTypes : (\E i \in DOMAIN outer : outer[i] = t)
                                         \/ (\E s \in DOMAIN subs : \E i \in DOMAIN subs[s] : subs[s][i] = t)}
Listings(outer, subs, t) == Cardinality({i \in DOMAIN outer : outer[i] = t})
                            + Cardinality({<<s, i>> \in {<<a, b>> : a \in DOMAIN subs, b \in 1..MaxList} :
                                             i \in DOMAIN subs[s] /\ subs[s][i] = t})
InOuter(outer, t) == \E i \in DOMAIN outer : outer[i] = t
PosIn(l, t) == CHOOSE i \in DOMAIN l : l[i] = t
\* number of embedded applications that list type t
SubsWith(subs, t) == {s \in DOMAIN subs : \E i \in DOMAIN subs[s] : subs[s][i] = t}
Before(outer, subs, a, b) ==       \* a must be outer to b
    \/ (InOuter(outer, a) /\ InOuter(outer, b) /\ PosIn(outer, a) < PosIn(outer, b))
    \/ (InOuter(outer, a) /\ ~InOuter(outer, b))
    \* two types contributed by ONE embedded application only (a type shared by sibling applications has
    \* no documented position relative to the siblings' other wrappers)
    \/ (~InOuter(outer, a) /\ ~InOuter(outer, b)
        /\ Cardinality(SubsWith(subs, a)) = 1 /\ SubsWith(subs, a) = SubsWith(subs, b)
        /\ LET s == CHOOSE x \in SubsWith(subs, a) : TRUE IN PosIn(subs[s], a) < PosIn(subs[s], b))

\* observed: sequence of wrapper types in the order they ran for one request (outermost first)
OrderOK(outer, subs, observed) ==
    /\ {observed[i] : i \in DOMAIN observed} = Wrappers(outer, subs)
    \* a unique type is applied once however often it is listed; a non-unique type that is listed exactly once in the
    \* whole tree is applied exactly once too (for a non-unique type listed several times the number is not specified)
    /\ \A t \in Wrappers(outer, subs) :
          (t \notin NonUnique \/ Listings(outer, subs, t) = 1) => Cardinality({i \in DOMAIN observed : observed[i] = t}) = 1
    /\ \A i, j \in DOMAIN observed : (i < j /\ observed[i] # observed[j]) => ~Before(outer, subs, observed[j], observed[i])

\* NESTED trees: the same record read as a chain - subs[1] embedded in the outer application, subs[2] embedded in
\* subs[1] (and so on).  "The embedding application's wrappers are outer to the embedded one's" then orders ALL levels:
\* a type sits at the outermost level that lists it, levels are ordered outside-in, a level's own list order holds.
LevelOf(outer, subs, t) == IF InOuter(outer, t) THEN 0
                           ELSE CHOOSE s \in DOMAIN subs : (\E i \in DOMAIN subs[s] : subs[s][i] = t)
                                                            /\ \A r \in 1..(s - 1) : ~(\E i \in DOMAIN subs[r] : subs[r][i] = t)
PosAtLevel(outer, subs, t) == IF InOuter(outer, t) THEN PosIn(outer, t) ELSE PosIn(subs[LevelOf(outer, subs, t)], t)
ChainBefore(outer, subs, a, b) ==
    \/ LevelOf(outer, subs, a) < LevelOf(outer, subs, b)
    \/ (LevelOf(outer, subs, a) = LevelOf(outer, subs, b) /\ PosAtLevel(outer, subs, a) < PosAtLevel(outer, subs, b))
OrderOKChain(outer, subs, observed) ==
    /\ {observed[i] : i \in DOMAIN observed} = Wrappers(outer, subs)
    /\ \A t \in Wrappers(outer, subs) :
          (t \notin NonUnique \/ Listings(outer, subs, t) = 1) => Cardinality({i \in DOMAIN observed : observed[i] = t}) = 1
    /\ \A i, j \in DOMAIN observed : (i < j /\ observed[i] # observed[j]) => ~ChainBefore(outer, subs, observed[j], observed[i])

VARIABLES outerL, subsL
wvars == <<outerL, subsL>>
WInit == /\ outerL \in {l \in Lists : NoDup(l)}
         /\ subsL \in UNION {[1..k -> {l \in Lists : NoDup(l)}] : k \in 0..2}
WSpec == WInit /\ [][UNCHANGED wvars]_wvars
\* non-emptiness: the outer list's own order is always an admissible observation for the outer wrappers
OuterOrderAdmissible ==
    LET obs == SelectSeq(outerL, LAMBDA t : t \in WTypes)
    IN subsL = <<>> => OrderOK(outerL, subsL, obs)
\* the chain order refines the tree order (whatever is admissible for the chain is admissible for siblings)
ChainRefinesTree == \A a, b \in Wrappers(outerL, subsL) : (a # b /\ Before(outerL, subsL, a, b)) => ChainBefore(outerL, subsL, a, b)
EmitTree == PrintT(<<"EMIT", ToJson([outer |-> outerL, subs |-> subsL,
                                     wrappers |-> Wrappers(outerL, subsL)])>>)
=============================================================================
