----------------------------- MODULE Pattern_MC -----------------------------
(***************************************************************************)
(* Design-level checks for Pattern.tla (C05, leg L1) and the emission of   *)
(* textual patterns with their validity verdict (leg L2).                  *)
(*                                                                         *)
(* Machine A (matcher): a pattern and a path are chosen; the matcher walks *)
(* the pattern element by element, nondeterministically deciding how many  *)
(* segments every binding takes (one action per decision, shaped like the  *)
(* regex alternatives of _compile_path_pattern).  TLC checks that every    *)
(* accepting run yields binds that Assign() accepts, that an accepting run *)
(* exists only if Can(), and the algebra between slash modes.              *)
(* Machine B (validity): textual patterns are enumerated and emitted with  *)
(* ValidPattern.                                                           *)
(***************************************************************************)
EXTENDS Pattern, Json

CONSTANTS MaxEls, MaxSegs, SegChoices, LitChoices, Types3, Ops5

\* values for the config files (cfg syntax has no tuples)
SegsA == {<<"a">>, <<"5">>, <<"-", "5">>, <<" ", "5">>, <<"5", ".">>, <<"5", "e", "5">>}
SegsB == SegsA \cup {<<"+", " ", "5">>, <<".", "5">>, <<"e">>, <<"5", "a">>, <<"é">>, <<".">>}
LitsA == {<<"a">>, <<"5">>}
SegsQ == {<<"a">>, <<"5">>, <<" ", "5">>, <<"5", ".">>}

VARIABLES pat, path, i, j, binds, pc
vars == <<pat, path, i, j, binds, pc>>

Lit(v) == [k |-> "lit", v |-> v, n |-> "-", t |-> "-", op |-> "-"]
Bind(n, t, op) == [k |-> "bind", v |-> <<>>, n |-> n, t |-> t, op |-> op]
Names == <<"x", "y", "z", "w">>

ElChoices(pos) == {Lit(v) : v \in LitChoices} \cup {Bind(Names[pos], t, op) : t \in Types3, op \in Ops5}
PatSet == UNION {{[els |-> f, trail |-> tr] : f \in {g \in [1..n -> UNION {ElChoices(p) : p \in 1..MaxEls}] :
                                                     \A p \in 1..n : g[p] \in ElChoices(p)}, tr \in BOOLEAN}
                 : n \in 0..MaxEls}
\* paths: leading slash, segments separated by single or double slashes, optional trailing slash(es)
RECURSIVE Join(_, _)
Join(segs, seps) == IF segs = <<>> THEN <<>>
                    ELSE Head(seps) \o Head(segs) \o Join(Tail(segs), Tail(seps))
SepChoices == {<<"/">>, <<"/", "/">>}
PathSet == UNION {{Join(s, sp) \o tr : s \in [1..n -> SegChoices], sp \in [1..n -> SepChoices],
                                        tr \in {<<>>, <<"/">>, <<"/", "/">>}} : n \in 1..MaxSegs}
           \cup {<<"/">>, <<"/", "/">>}

S == Segs(path)
\* identity conversion table: numbers are represented by their own segment (the real conversions are
\* Python's; here only the shape of the assignment is checked)
IdConv == [k \in DOMAIN S |-> [s |-> S[k], i |-> <<"i">> \o S[k], f |-> <<"f">> \o S[k]]]
TagOf(t) == CASE t = "str" -> <<"s">> [] t = "int" -> <<"i">> [] t = "float" -> <<"f">>

Init == /\ pat \in PatSet /\ path \in PathSet
        /\ i = 1 /\ j = 1 /\ binds = <<>> /\ pc = "run"

El == pat.els[i]
StepLit == /\ pc = "run" /\ i <= Len(pat.els) /\ El.k = "lit"
           /\ j <= Len(S) /\ S[j] = El.v
           /\ i' = i + 1 /\ j' = j + 1 /\ UNCHANGED <<pat, path, binds, pc>>
\* a binding takes cnt segments (0 only for ? and *, > 1 only for * and +)
StepBind(cnt) ==
    /\ pc = "run" /\ i <= Len(pat.els) /\ El.k = "bind"
    /\ j + cnt - 1 <= Len(S)
    /\ CASE El.op \in {"", ":"} -> cnt = 1 [] El.op = "?" -> cnt \in {0, 1} [] El.op = "*" -> TRUE [] El.op = "+" -> cnt >= 1
    /\ \A k \in j..(j + cnt - 1) : SegOK(El.t, S[k], "may")
    /\ binds' = Append(binds, [n |-> El.n, none |-> (El.op = "?" /\ cnt = 0),
                               vals |-> [k \in 1..cnt |-> TagOf(El.t) \o S[j + k - 1]]])
    /\ i' = i + 1 /\ j' = j + cnt /\ UNCHANGED <<pat, path, pc>>
Finish == /\ pc = "run" /\ i = Len(pat.els) + 1 /\ j = Len(S) + 1
          /\ pc' = "accept" /\ UNCHANGED <<pat, path, i, j, binds>>
Next == StepLit \/ (\E cnt \in 0..MaxSegs : StepBind(cnt)) \/ Finish
Spec == Init /\ [][Next]_vars

\* every accepting run is an assignment the specification's checker accepts, and Can() holds
AcceptIsAssign == pc = "accept" => (Assign(pat.els, S, binds, IdConv) /\ Can(pat.els, S, "may"))
\* no accepting run without Can(): stated on the initial state as the contrapositive invariant
NoCanNoAccept == (~Can(pat.els, S, "may")) => pc # "accept"
MustImpliesMay == \A m \in {"strict", "redirect", "rewrite"} : MustMatch(pat, path, m) => MayMatch(pat, path, m)
StrictImpliesLoose == MayMatch(pat, path, "strict") => MayMatch(pat, path, "redirect")
RedirectIsRewrite == (MayMatch(pat, path, "redirect") <=> MayMatch(pat, path, "rewrite"))
                     /\ (MustMatch(pat, path, "redirect") <=> MustMatch(pat, path, "rewrite"))
\* repeated slashes never matter outside strict mode
SlashInsensitive == \A q \in {p2 \in PathSet : Segs(p2) = S} :
                        MayMatch(pat, path, "redirect") <=> MayMatch(pat, q, "redirect")

=============================================================================
