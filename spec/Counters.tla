------------------------------ MODULE Counters ------------------------------
(***************************************************************************)
(* C19 (first half): per-route hit counters of StatsMiddleware.            *)
(*                                                                         *)
(* The scenario application has three user routes, tried in this order:    *)
(*   R1  /a/<o1>/<o2>      executes outcome o1                             *)
(*   R2  /<p>/<o1>/<o2>    executes outcome o2                             *)
(*   R3  POST /m           answers 200                                     *)
(* plus the framework's catch-all ("NULL") which answers with the last     *)
(* non-breaking error, else 405 if a path matched with the wrong method,   *)
(* else 404.  A request *reaches* a route when the route's chain is        *)
(* executed (pattern and method matched).  One action per request; the     *)
(* per-route increments are the linearisation points of                    *)
(* StatsMiddleware.request's finally block.                                *)
(***************************************************************************)
EXTENDS Naturals, Sequences, FiniteSets, TLC, Json

CONSTANTS Outcomes,   \* subset of AllOutcomes used by this model instance
          MaxOps

AllOutcomes == {"ok200", "redir302", "raise404", "ret404", "raise503", "raise422inst",
                "uncaughtVE", "uncaughtKE", "nbraise404", "nbret403",
                "nohdr204",
                "uncaughtSC"}    \* an uncaught application exception that happens to carry a status_code attribute      \* a Response that carries no Content-Type header at all (204 No Content)

\* SR / SX: the stats application's own read and reset routes (they are routes too: their requests are counted)
Routes == {"R1", "R2", "R3", "NULL", "SR", "SX"}

NonBreaking(o) == o \in {"nbraise404", "nbret403"}

\* the bucket a route's hit is filed under: status code of the response, code of a
\* raised HTTPException, type name of any other exception
Bucket(o) == CASE o = "ok200"      -> "200"
               [] o = "redir302"   -> "302"
               [] o = "raise404"   -> "404"
               [] o = "ret404"     -> "404"
               [] o = "nbraise404" -> "404"
               [] o = "nbret403"   -> "403"
               [] o = "raise503"   -> "503"
               [] o = "raise422inst" -> "422"     \* BadRequest(code=422): the code given to the INSTANCE
               [] o = "uncaughtVE" -> "ValueError"
               [] o = "uncaughtKE" -> "KeyError"
               [] o = "nohdr204"   -> "204"
               [] o = "uncaughtSC" -> "UpstreamError"     \* its TYPE (it is not an HTTPException), whatever attributes it has

Buckets == {"200", "204", "302", "UpstreamError", "403", "404", "405", "422", "503", "ValueError", "KeyError"}

\* what the client sees for an outcome (used by C15 as well)
StatusOf(o) == CASE o = "ok200" -> 200 [] o = "redir302" -> 302
                 [] o \in {"raise404", "ret404", "nbraise404"} -> 404
                 [] o = "nbret403" -> 403 [] o = "raise503" -> 503 [] o = "raise422inst" -> 422
                 [] o \in {"uncaughtVE", "uncaughtKE", "uncaughtSC"} -> 500
                 [] o = "nohdr204" -> 204

\* A request: kind "a" (/a/o1/o2), "b" (/b/o1/o2), "m" (GET /m: wrong method),
\* "mp" (POST /m), "x" (unknown URL /zz)
Requests == [k : {"a", "b"}, o1 : Outcomes, o2 : Outcomes]
            \cup [k : {"m", "mp", "x"}, o1 : {"ok200"}, o2 : {"ok200"}]

\* the sequence of <<route, bucket>> visits a request makes, in order
Visits(q) ==
    LET nullAfter(last) == <<"NULL", Bucket(last)>>   \* NULL returns the last non-breaking error
    IN CASE q.k = "a" ->
              IF NonBreaking(q.o1)
              THEN IF NonBreaking(q.o2)
                   THEN << <<"R1", Bucket(q.o1)>>, <<"R2", Bucket(q.o2)>>, nullAfter(q.o2) >>
                   ELSE << <<"R1", Bucket(q.o1)>>, <<"R2", Bucket(q.o2)>> >>
              ELSE << <<"R1", Bucket(q.o1)>> >>
         [] q.k = "b" ->
              IF NonBreaking(q.o2)
              THEN << <<"R2", Bucket(q.o2)>>, nullAfter(q.o2) >>
              ELSE << <<"R2", Bucket(q.o2)>> >>
         [] q.k = "m"  -> << <<"NULL", "405">> >>
         [] q.k = "mp" -> << <<"R3", "200">> >>
         [] q.k = "x"  -> << <<"NULL", "404">> >>

\* final status the client receives
FinalStatus(q) ==
    CASE q.k = "a" -> IF NonBreaking(q.o1) THEN StatusOf(q.o2) ELSE StatusOf(q.o1)
      [] q.k = "b" -> StatusOf(q.o2)
      [] q.k = "m" -> 405 [] q.k = "mp" -> 200 [] q.k = "x" -> 404

VARIABLES hits,     \* [Routes -> [Buckets -> Nat]]
          reached,  \* ghost: [Routes -> Nat] requests that reached the route since last reset
          ops       \* history, for emission: [a, q, table]

vars == <<hits, reached, ops>>
view == <<hits, reached>>

Zero == [r \in Routes |-> [b \in Buckets |-> 0]]

Table(h) == {<<r, b, h[r][b]>> : r \in Routes, b \in Buckets} \ {<<r, b, 0>> : r \in Routes, b \in Buckets}

RECURSIVE Apply(_, _)
Apply(h, vs) == IF vs = <<>> THEN h
                ELSE LET v == Head(vs)
                     IN Apply([h EXCEPT ![v[1]][v[2]] = @ + 1], Tail(vs))

RECURSIVE Count(_, _)
Count(rc, vs) == IF vs = <<>> THEN rc
                 ELSE Count([rc EXCEPT ![Head(vs)[1]] = @ + 1], Tail(vs))

Init == hits = Zero /\ reached = [r \in Routes |-> 0] /\ ops = <<>>

Req(q) == /\ hits' = Apply(hits, Visits(q))
          /\ reached' = Count(reached, Visits(q))
          /\ ops' = Append(ops, [a |-> "req", q |-> q, status |-> FinalStatus(q), table |-> {}])

Bump(h, r) == [h EXCEPT ![r]["200"] = @ + 1]
\* GET <stats>/ : observes the table.  The read request itself reaches route SR and is counted exactly once - either
\* before the table is computed (incl) or after (the implementation records a hit when the request completes)
ReadT(incl, tbl) ==
    /\ tbl = Table(IF incl THEN Bump(hits, "SR") ELSE hits)
    /\ hits' = Bump(hits, "SR")
    /\ reached' = [reached EXCEPT !["SR"] = @ + 1]
    /\ ops' = Append(ops, [a |-> "read", q |-> [k |-> "-", o1 |-> "-", o2 |-> "-"], status |-> 200, table |-> tbl])
Read == \E incl \in BOOLEAN : ReadT(incl, Table(IF incl THEN Bump(hits, "SR") ELSE hits))

\* POST <stats>/reset : returns the totals so far, then counting restarts from zero.  The reset request itself is
\* counted exactly once: in the returned totals (incl) or as the first hit of the new epoch
ResetT(incl, tbl) ==
    /\ tbl = Table(IF incl THEN Bump(hits, "SX") ELSE hits)
    /\ hits' = IF incl THEN Zero ELSE Bump(Zero, "SX")
    /\ reached' = [r \in Routes |-> IF r = "SX" /\ ~incl THEN 1 ELSE 0]
    /\ ops' = Append(ops, [a |-> "reset", q |-> [k |-> "-", o1 |-> "-", o2 |-> "-"], status |-> 200, table |-> tbl])
Reset == \E incl \in BOOLEAN : ResetT(incl, Table(IF incl THEN Bump(hits, "SX") ELSE hits))

Next == /\ Len(ops) < MaxOps
        /\ \/ \E q \in Requests : Req(q)
           \/ Read
           \/ Reset

Spec == Init /\ [][Next]_vars

RECURSIVE SumOver(_, _)
SumOver(f, S) == IF S = {} THEN 0 ELSE LET b == CHOOSE x \in S : TRUE IN f[b] + SumOver(f, S \ {b})

\* a route's counts always sum to the number of requests that reached it since the last reset
SumMatches == \A r \in Routes : SumOver(hits[r], Buckets) = reached[r]
\* each request is counted at most once per route
OncePerRoute == [][\A r \in Routes : SumOver(hits'[r], Buckets) <= SumOver(hits[r], Buckets) + 1
                                     \/ hits' = Zero \/ hits' = Bump(Zero, "SX")]_vars
\* reset restarts from zero
ResetZeroes == [][(ops' # ops /\ ops'[Len(ops')].a = "reset") => (hits' = Zero \/ hits' = Bump(Zero, "SX"))]_vars

Emit == (Len(ops) = MaxOps) => PrintT(<<"EMIT", ToJson([ops |-> ops])>>)
=============================================================================
