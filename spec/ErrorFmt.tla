------------------------------ MODULE ErrorFmt ------------------------------
(***************************************************************************)
(* C09: error responses - right status, negotiated format, everything      *)
(* escaped.                                                                *)
(*                                                                         *)
(* - StdCode: the standard status code of every error class (typed in from *)
(*   the HTTP status registry, independently of clastic/errors.py).        *)
(* - content negotiation over the four supported formats (RFC 7231 5.3.2): *)
(*   an Accept header is a sequence of [range, q]; the q of a format is    *)
(*   the q of the MOST SPECIFIC client range matching it; formats with     *)
(*   q = 0 are unacceptable; the response format is one of the acceptable  *)
(*   formats of maximal q (ties are left open), or plain text when nothing *)
(*   is acceptable.                                                        *)
(* - what a conforming body is, stated on the projection of the body       *)
(*   (parsed by an independent stdlib parser): well formed for its         *)
(*   Content-Type, every dynamic field present as DATA, no markup that     *)
(*   originates from a dynamic field.                                      *)
(***************************************************************************)
EXTENDS Naturals, Sequences, FiniteSets, TLC, Json

StdCode == [BadRequest |-> 400, Unauthorized |-> 401, PaymentRequired |-> 402, Forbidden |-> 403, NotFound |-> 404,
            MethodNotAllowed |-> 405, NotAcceptable |-> 406, ProxyAuthenticationRequired |-> 407, RequestTimeout |-> 408,
            Conflict |-> 409, Gone |-> 410, LengthRequired |-> 411, PreconditionFailed |-> 412, RequestEntityTooLarge |-> 413,
            RequestURITooLong |-> 414, UnsupportedMediaType |-> 415, RequestedRangeNotSatisfiable |-> 416,
            ExpectationFailed |-> 417, ImATeapot |-> 418, UnprocessableEntity |-> 422, UpgradeRequired |-> 426,
            PreconditionRequired |-> 428, TooManyRequests |-> 429, RequestHeaderFieldsTooLarge |-> 431,
            UnavailableForLegalReasons |-> 451, InternalServerError |-> 500, NotImplemented |-> 501, BadGateway |-> 502,
            ServiceUnavailable |-> 503, GatewayTimeout |-> 504, HTTPVersionNotSupported |-> 505]

Formats == {"text/html", "application/json", "application/xml", "text/plain"}
CONSTANTS Ranges,      \* media ranges a client may send
          Qs,          \* q values scaled by 10: 0, 3, 8, 10
          MaxItems

TypeOf(r) == CASE r \in {"text/html", "text/plain", "text/*"} -> "text"
               [] r \in {"application/json", "application/xml", "application/*"} -> "application"
               [] r = "image/png" -> "image" [] OTHER -> "?"
\* specificity of a client range w.r.t. format f: 3 exact, 2 type/*, 1 */*, 0 no match
Spec3(r, f) == IF r = f THEN 3
               ELSE IF r \in {"text/*", "application/*"} /\ TypeOf(r) = TypeOf(f) THEN 2
               ELSE IF r = "*/*" THEN 1 ELSE 0
MaxOf(S) == CHOOSE x \in S : \A y \in S : y <= x
\* q of format f under Accept sequence acc: the (largest) q among the most specific matching items; -1 = no item matches
QOf(acc, f) ==
    LET sp == {Spec3(acc[i].r, f) : i \in DOMAIN acc}
        best == IF sp = {} THEN 0 ELSE MaxOf(sp)
    IN IF best = 0 THEN 0 - 1 + 0       \* encoded as 0 below; see Acceptable
       ELSE MaxOf({acc[i].q : i \in {j \in DOMAIN acc : Spec3(acc[j].r, f) = best}})
Matches(acc, f) == \E i \in DOMAIN acc : Spec3(acc[i].r, f) > 0
Acceptable(acc, f) == Matches(acc, f) /\ QOf(acc, f) > 0
\* the set of permitted response formats
Allowed(acc) ==
    IF acc = <<>> THEN Formats                          \* no Accept header: anything goes
    ELSE LET ok == {f \in Formats : Acceptable(acc, f)}
         IN IF ok = {} THEN {"text/plain"}
            ELSE {f \in ok : \A g \in ok : QOf(acc, g) <= QOf(acc, f)}

VARIABLES acc
Items == [r : Ranges, q : Qs]
Init == acc \in UNION {[1..n -> Items] : n \in 0..MaxItems}
Spec == Init /\ [][UNCHANGED acc]_acc

NegotiationTotal == Allowed(acc) # {} /\ Allowed(acc) \subseteq Formats
TextIffNothingAcceptable ==
    (acc # <<>> /\ \A f \in Formats : ~Acceptable(acc, f)) => Allowed(acc) = {"text/plain"}
NeverUnacceptable == \A f \in Allowed(acc) : (acc = <<>>) \/ Acceptable(acc, f) \/ (\A g \in Formats : ~Acceptable(acc, g))
ExactBeatsWildcard ==
    \A f \in Formats : (\E i \in DOMAIN acc : acc[i].r = f /\ acc[i].q = 0) /\ (\A j \in DOMAIN acc : acc[j].r = f => acc[j].q = 0)
                          => ~Acceptable(acc, f)
Emit == PrintT(<<"EMIT", ToJson([acc |-> acc, allowed |-> Allowed(acc)])>>)

(* ---- what a conforming error response is (evaluated on recorded projections, ErrorFmt_Trace) ---- *)
\* r = [cls, code_override (0 = none), accept (sequence of items, or "absent"), status, ctype, wellformed,
\*      fields_expected (set of field names set on the error), fields_found (set), alien (set of markup names that
\*      originate from dynamic text), debug]
StatusOK(r) == r.status = (IF r.code_override # 0 THEN r.code_override ELSE StdCode[r.cls])
FormatOK(r) == r.ctype \in Allowed(r.accept)
BodyOK(r) == /\ r.wellformed
             /\ r.fields_expected \subseteq r.fields_found
             /\ r.alien = {}
=============================================================================
