--------------------------- MODULE Pattern_Trace ---------------------------
(***************************************************************************)
(* Record validation for C05.  PATS_FILE: JSON array of patterns           *)
(*   [{els:[...], trail}]  (ids = positions).  TRACE_FILE: ndjson, one     *)
(* line per path:                                                          *)
(*   {tid, path:[chars], conv:[{s,i,f}],                                   *)
(*    obs:[{p: pattern id, m: mode, ok: matched, b:[{n, none, vals}]}]}    *)
(* recorded from BoundRoute.match_path of the real code.  TLC accepts the  *)
(* line iff every observation is one the specification allows; otherwise   *)
(* it prints every offending observation (one REJECT line each).                              *)
(***************************************************************************)
EXTENDS Pattern, Json, IOUtils

Pats == JsonDeserialize(IOEnv.PATS_FILE)
Traces == ndJsonDeserialize(IOEnv.TRACE_FILE)
VARIABLES tid
Init == tid \in 1..Len(Traces)
Next == UNCHANGED tid
TSpec == Init /\ [][Next]_tid

Bad(r) == {k \in DOMAIN r.obs :
             ~ObsOK(Pats[r.obs[k].p], r.path, r.obs[k].m, r.obs[k].ok, r.obs[k].b, r.conv)}
Accept == LET r == Traces[tid]
              bad == Bad(r)
          IN IF bad = {} THEN PrintT(<<"ACCEPT", r.tid>>)
             ELSE \A k \in bad : PrintT(<<"REJECT", r.tid, k, Cardinality(bad)>>)
=============================================================================
