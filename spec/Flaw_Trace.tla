----------------------------- MODULE Flaw_Trace -----------------------------
(* Record validation for C20: {tid, o:{tc, fc, constructs, status, containsText, containsFiles, namesType, namesMsg, alienMarkup}} *)
EXTENDS Flaw, IOUtils
Traces == ndJsonDeserialize(IOEnv.TRACE_FILE)
VARIABLES tid
TInit == tid \in 1..Len(Traces) /\ Init
TSpec == TInit /\ [][UNCHANGED <<vars, tid>>]_<<vars, tid>>
Accept == ObsOK(Traces[tid].o) => PrintT(<<"ACCEPT", Traces[tid].tid>>)
=============================================================================
