----------------------------- MODULE CacheReval -----------------------------
(***************************************************************************)
(* Beyond the listed properties: what HTTPCacheMiddleware (middleware/     *)
(* client_cache.py) is FOR - validator-based revalidation.                 *)
(*                                                                         *)
(* One resource whose representation the application changes over time     *)
(* (Update), one client with a private cache holding at most one           *)
(* (validator, body) pair.  The middleware tags every non-streamed         *)
(* Response with an entity tag derived from its body and makes it          *)
(* conditional on the request: a GET/HEAD carrying a matching              *)
(* If-None-Match is answered 304 without a body, everything else gets the  *)
(* full response.  HTTP errors are not Responses with cache control in     *)
(* clastic (HTTPException derives from BaseResponse only) and pass         *)
(* untouched.                                                              *)
(*                                                                         *)
(* The guarantee: whatever the history of updates and fetches, after a     *)
(* fetch the client holds the CURRENT representation (never a stale one),  *)
(* and 304 is only ever sent when the client's copy is current.            *)
(***************************************************************************)
EXTENDS Naturals, Sequences, FiniteSets, TLC, Json

CONSTANTS Bodies,     \* representations
          Methods,    \* subset of {"GET", "HEAD", "POST"}
          MaxOps

\* entity tags are injective in the body (md5 collisions are outside the model)
Tag(b) == <<"etag", b>>
NoTag == <<"none">>

VARIABLES server,     \* current body, or "gone" (the route raises NotFound)
          cache,      \* [tag, body]   the client's private cache (tag = NoTag: empty)
          ops,        \* history: sequence of [op, ...] with the response of every fetch
          stale       \* TRUE iff the client ended a GET with a body that is not the server's (must stay FALSE)

vars == <<server, cache, ops, stale>>
Empty == [tag |-> NoTag, body |-> "-"]

Init == /\ server \in Bodies /\ cache = Empty /\ stale = FALSE
        /\ ops = <<[op |-> "init", to |-> server, m |-> "-", sent |-> NoTag, status |-> 0, body |-> "-", tag |-> NoTag]>>

Update(b) == /\ Len(ops) < MaxOps /\ b # server
             /\ server' = b
             /\ ops' = Append(ops, [op |-> "update", to |-> b, m |-> "-", sent |-> NoTag, status |-> 0, body |-> "-", tag |-> NoTag])
             /\ UNCHANGED <<cache, stale>>

\* what the middleware + response machinery answer to (method, If-None-Match) when the resource is s
Answer(s, m, inm) ==
    IF s = "gone" THEN [status |-> 404, body |-> "err", tag |-> NoTag]
    ELSE IF m \in {"GET", "HEAD"} /\ inm = Tag(s) THEN [status |-> 304, body |-> "", tag |-> Tag(s)]
    ELSE [status |-> 200, body |-> IF m = "HEAD" THEN "" ELSE s, tag |-> Tag(s)]

\* the client revalidates with the validator it holds (usecache) or fetches unconditionally
Fetch(m, usecache) ==
    /\ Len(ops) < MaxOps
    /\ LET inm == IF usecache THEN cache.tag ELSE NoTag
           a == Answer(server, m, inm)
       IN /\ ops' = Append(ops, [op |-> "fetch", to |-> "-", m |-> m, sent |-> inm, status |-> a.status, body |-> a.body, tag |-> a.tag])
          /\ cache' = IF a.status = 200 /\ m = "GET" THEN [tag |-> a.tag, body |-> a.body]
                      ELSE IF a.status = 404 THEN Empty
                      ELSE cache                                       \* 304: keep; HEAD/POST: not stored
          /\ stale' = (stale \/ (m = "GET" /\ a.status \in {200, 304} /\ cache'.body # server))
    /\ UNCHANGED server

Next == \/ \E b \in Bodies \cup {"gone"} : Update(b)
        \/ \E m \in Methods, u \in BOOLEAN : Fetch(m, u)
Spec == Init /\ [][Next]_vars

(***************************** properties *********************************)
NeverStale == ~stale
\* 304 only in answer to a validator the client really sent, and only when it names the current representation
NotModifiedSound == \A k \in DOMAIN ops : ops[k].op = "fetch" /\ ops[k].status = 304 =>
                        ops[k].sent # NoTag /\ ops[k].sent = ops[k].tag /\ ops[k].m \in {"GET", "HEAD"}
\* a request without validator, or with POST, always gets the full answer
FullUnlessValidated == \A k \in DOMAIN ops : ops[k].op = "fetch" /\ (ops[k].sent = NoTag \/ ops[k].m = "POST") => ops[k].status # 304
\* validators change exactly when the representation does
TagsFollowBodies == \A i, j \in DOMAIN ops : (ops[i].op = "fetch" /\ ops[j].op = "fetch" /\ ops[i].status = 200 /\ ops[j].status = 200
                                              /\ ops[i].m = "GET" /\ ops[j].m = "GET")
                                              => ((ops[i].tag = ops[j].tag) <=> (ops[i].body = ops[j].body))

Emit == Len(ops) = MaxOps => PrintT(<<"EMIT", ToJson([ops |-> ops])>>)
=============================================================================
