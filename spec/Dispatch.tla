------------------------------ MODULE Dispatch ------------------------------
(***************************************************************************)
(* C06: Application.dispatch - first match in insertion order, method      *)
(* admission, non-breaking fall-through, 404 / 405 (+Allow).               *)
(*                                                                         *)
(* Two layers, checked against each other by TLC:                          *)
(*   Answer(table, req)  the property, declaratively;                      *)
(*   the loop            one action per branch of Application.dispatch's   *)
(*                       `for route in self.routes + [null_route]` loop,   *)
(*                       with DispatchState (excs, allowed) as variables.  *)
(* The routing table itself is built by a history of add(entry, index)     *)
(* operations (OrderPreserved).                                            *)
(***************************************************************************)
EXTENDS Naturals, Sequences, FiniteSets, TLC, Json, PathMatch

CONSTANTS PatIds,      \* subset of DOMAIN Pats used by this instance
          MethodSets,  \* subset of DOMAIN MSets
          Behs,        \* subset of AllBehs
          MaxRoutes,
          ReqPaths,    \* subset of DOMAIN Paths
          ReqMethods

L(v) == [k |-> "lit", v |-> v]
B(k, n) == [k |-> k, v |-> n]

\* pattern catalogue: overlapping and disjoint patterns
Pats == [ pa    |-> <<L("a")>>,                       \* /a
          px    |-> <<B("one", "x")>>,                \* /<x>
          pab   |-> <<L("a"), L("b")>>,               \* /a/b
          pxb   |-> <<B("one", "x"), L("b")>>,        \* /<x>/b
          pax   |-> <<L("a"), B("one", "x")>>,        \* /a/<x>
          prest |-> <<B("many0", "r")>>,              \* /<r*>
          paopt |-> <<L("a"), B("opt", "o")>>,        \* /a/<o?>
          paB   |-> <<L("a")>>,                       \* /a/    (branch route: pattern ends with a slash)
          pabB  |-> <<L("a"), L("b")>> ]              \* /a/b/
PBranch(p) == p \in {"paB", "pabB"}

Paths == [ a |-> <<"a">>, b |-> <<"b">>, ab |-> <<"a", "b">>, cb |-> <<"c", "b">>,
           ac |-> <<"a", "c">>, abc |-> <<"a", "b", "c">>, root |-> <<>>,
           aT |-> <<"a">>, abT |-> <<"a", "b">> ]            \* /a/ and /a/b/ (requests WITH a trailing slash)
PTrail(p) == p \in {"aT", "abT"}

MSets == [ any |-> {}, get |-> {"GET", "HEAD"}, post |-> {"POST"}, getpost |-> {"GET", "HEAD", "POST"},
           put |-> {"PUT"} ]

AllBehs == {"answer", "raise4xx", "ret4xx", "raise5xx", "nbraise", "nbret", "uncaught", "nonresp"}
NonBreaking(b) == b \in {"nbraise", "nbret"}
StatusOf(b) == CASE b = "answer" -> 200 [] b \in {"raise4xx", "nbraise"} -> 404
                 [] b \in {"ret4xx", "nbret"} -> 403 [] b = "raise5xx" -> 503
                 [] b \in {"uncaught", "nonresp"} -> 500
\* does the response body identify the route (marker)?
HasMarker(b) == b # "nonresp"

Upper(m) == CASE m = "get" -> "GET" [] m = "post" -> "POST" [] OTHER -> m

RouteTypes == [pat : PatIds, ms : MethodSets, beh : Behs]

\* routes carry their pattern (patv) and method set (msv) explicitly, requests their segments (pathv),
\* so that the same operators serve the catalogue model and recorded traces with arbitrary patterns
PathMatches(r, q) == Matches(r.patv, q.pathv)
Admits(r, q) == r.msv = {} \/ Upper(q.method) \in r.msv
\* default slash mode ("redirect"; the other modes are C07's Slash.tla): a branch route that WOULD EXECUTE a request
\* whose path lacks the trailing slash answers with a redirect instead - after the method check, so a branch route that
\* does not admit the method is skipped like any other.  Leaf routes take both forms of the path.
Redirects(r, q) == r.trail /\ ~q.trail /\ q.pathv # <<>>

(************************* declarative property ****************************)
\* indices of routes that get executed, in order: every route that matches path and method,
\* up to and including the first one whose behaviour is breaking
RECURSIVE ExecFrom(_, _, _)
ExecFrom(t, q, i) ==
    IF i > Len(t) THEN <<>>
    ELSE IF PathMatches(t[i], q) /\ Admits(t[i], q)
         THEN IF Redirects(t[i], q) THEN <<i>>                 \* reached, not executed: the redirect ends the loop
              ELSE IF NonBreaking(t[i].beh) THEN <<i>> \o ExecFrom(t, q, i + 1) ELSE <<i>>
         ELSE ExecFrom(t, q, i + 1)

NoneId == 0
Answer(t, q) ==
    LET ex == ExecFrom(t, q, 1)
        last == IF ex = <<>> THEN 0 ELSE ex[Len(ex)]
        pathMatching == {i \in 1..Len(t) : PathMatches(t[i], q)}
    IN IF last # 0 /\ Redirects(t[last], q)
       THEN [status |-> 302, by |-> NoneId, exec |-> [k \in 1..(Len(ex) - 1) |-> t[ex[k]].id], allow |-> {}]
       ELSE IF last # 0
       THEN \* either the first breaking route answered, or every executed route was non-breaking
            \* and the most recent non-breaking error becomes the response
            [status |-> StatusOf(t[last].beh), by |-> IF HasMarker(t[last].beh) THEN t[last].id ELSE NoneId,
             exec |-> [k \in 1..Len(ex) |-> t[ex[k]].id], allow |-> {}]
       ELSE IF pathMatching # {}
            THEN [status |-> 405, by |-> NoneId, exec |-> <<>>,
                  allow |-> UNION {t[i].msv : i \in pathMatching}]
            ELSE [status |-> 404, by |-> NoneId, exec |-> <<>>, allow |-> {}]

(****************************** the loop ***********************************)
VARIABLES table,   \* sequence of [id, pat, ms, beh]
          hist,    \* the add() history that produced table: sequence of [id, idx]
          req,     \* [path, method] or "none" while building
          pc,      \* "build" | "loop" | "null" | "done"
          i,       \* loop index
          excs,    \* DispatchState.exceptions: sequence of route ids with their status
          allowed, \* DispatchState.allowed_methods
          exec,    \* ids of executed routes
          ret      \* [status, by]

vars == <<table, hist, req, pc, i, excs, allowed, exec, ret>>
NoRet == [status |-> 0, by |-> NoneId]

InsertAt(s, idx, e) == SubSeq(s, 1, idx) \o <<e>> \o SubSeq(s, idx + 1, Len(s))

Init == /\ table = <<>> /\ hist = <<>> /\ req = [path |-> "-", pathv |-> <<>>, method |-> "-", trail |-> FALSE] /\ pc = "build"
        /\ i = 1 /\ excs = <<>> /\ allowed = {} /\ exec = <<>> /\ ret = NoRet

\* app.add(route, index=idx); idx = Len(table) is plain append
Add(rt, idx) ==
    /\ pc = "build" /\ Len(table) < MaxRoutes
    /\ LET id == Len(table) + 1
       IN /\ table' = InsertAt(table, idx, [id |-> id, pat |-> rt.pat, patv |-> Pats[rt.pat],
                                            ms |-> rt.ms, msv |-> MSets[rt.ms], beh |-> rt.beh,
                                            trail |-> PBranch(rt.pat)])
          /\ hist' = Append(hist, [id |-> id, idx |-> idx])
    /\ UNCHANGED <<req, pc, i, excs, allowed, exec, ret>>

Request(q) ==
    /\ pc = "build"
    /\ req' = q /\ pc' = "loop" /\ i' = 1
    /\ UNCHANGED <<table, hist, excs, allowed, exec, ret>>

\* `if path_params is None: continue`
SkipNoPath ==
    /\ pc = "loop" /\ i <= Len(table) /\ ~PathMatches(table[i], req)
    /\ i' = i + 1
    /\ UNCHANGED <<table, hist, req, pc, excs, allowed, exec, ret>>

\* `if not method_allowed: dispatch_state.update_methods(route.methods); continue`
SkipMethod ==
    /\ pc = "loop" /\ i <= Len(table) /\ PathMatches(table[i], req) /\ ~Admits(table[i], req)
    /\ allowed' = allowed \cup table[i].msv
    /\ i' = i + 1
    /\ UNCHANGED <<table, hist, req, pc, excs, exec, ret>>

\* `if route.is_branch: ... if norm_path != url_path: if route.slash_mode == S_REDIRECT: return redirect(...)`
SlashRedirect ==
    /\ pc = "loop" /\ i <= Len(table) /\ PathMatches(table[i], req) /\ Admits(table[i], req)
    /\ Redirects(table[i], req)
    /\ ret' = [status |-> 302, by |-> NoneId]
    /\ pc' = "done"
    /\ UNCHANGED <<table, hist, req, i, excs, allowed, exec>>

\* route.execute(...) ; breaking results end the loop
ExecuteBreaking ==
    /\ pc = "loop" /\ i <= Len(table) /\ PathMatches(table[i], req) /\ Admits(table[i], req)
    /\ ~Redirects(table[i], req)
    /\ ~NonBreaking(table[i].beh)
    /\ exec' = Append(exec, table[i].id)
    /\ ret' = [status |-> StatusOf(table[i].beh),
               by |-> IF HasMarker(table[i].beh) THEN table[i].id ELSE NoneId]
    /\ pc' = "done"
    /\ UNCHANGED <<table, hist, req, i, excs, allowed>>

\* non-breaking HTTPException: dispatch_state.add_exception(ret); continue
ExecuteNonBreaking ==
    /\ pc = "loop" /\ i <= Len(table) /\ PathMatches(table[i], req) /\ Admits(table[i], req)
    /\ ~Redirects(table[i], req)
    /\ NonBreaking(table[i].beh)
    /\ exec' = Append(exec, table[i].id)
    /\ excs' = Append(excs, [status |-> StatusOf(table[i].beh), by |-> table[i].id])
    /\ i' = i + 1
    /\ UNCHANGED <<table, hist, req, pc, allowed, ret>>

\* the catch-all NullRoute.handle_sentinel_condition
NullRoute ==
    /\ pc = "loop" /\ i = Len(table) + 1
    /\ ret' = IF excs # <<>> THEN excs[Len(excs)]
              ELSE IF allowed # {} THEN [status |-> 405, by |-> NoneId]
              ELSE [status |-> 404, by |-> NoneId]
    /\ pc' = "done"
    /\ UNCHANGED <<table, hist, req, i, excs, allowed, exec>>

Next == \/ \E rt \in RouteTypes : \E idx \in 0..Len(table) : Add(rt, idx)
        \/ \E p \in ReqPaths, m \in ReqMethods : Request([path |-> p, pathv |-> Paths[p], method |-> m, trail |-> PTrail(p)])
        \/ SkipNoPath \/ SkipMethod \/ SlashRedirect \/ ExecuteBreaking \/ ExecuteNonBreaking \/ NullRoute

Spec == Init /\ [][Next]_vars

\* table construction only (emission runs)
BuildNext == \E rt \in RouteTypes : \E idx \in 0..Len(table) : Add(rt, idx)
BuildSpec == Init /\ [][BuildNext]_vars

(***************************** properties *********************************)
\* the loop computes the declarative answer
LoopIsAnswer ==
    pc = "done" =>
      LET a == Answer(table, req) IN
        /\ ret.status = a.status /\ ret.by = a.by /\ exec = a.exec
        /\ (a.status = 405 /\ excs = <<>> => allowed = a.allow)

\* a redirect is only ever issued on behalf of a route that admits the method, and nothing runs after it
RedirectOnlyIfAdmitted ==
    pc = "done" /\ ret.status = 302 =>
      \E k \in 1..Len(table) : /\ PathMatches(table[k], req) /\ Admits(table[k], req) /\ Redirects(table[k], req)
                                /\ \A j \in 1..(k - 1) : ~(PathMatches(table[j], req) /\ Admits(table[j], req)
                                                            /\ (~NonBreaking(table[j].beh) \/ Redirects(table[j], req)))

\* first match in order: nothing after the answering route runs, nothing that matches is skipped
FirstMatch ==
    pc = "done" =>
      \A k \in 1..Len(table) :
         LET earlierBreaker == \E j \in 1..(k - 1) : PathMatches(table[j], req) /\ Admits(table[j], req)
                                                       /\ (~NonBreaking(table[j].beh) \/ Redirects(table[j], req))
             ids == {exec[n] : n \in DOMAIN exec}
         IN (table[k].id \in ids) <=> (PathMatches(table[k], req) /\ Admits(table[k], req) /\ ~Redirects(table[k], req)
                                       /\ ~earlierBreaker)

\* routes are never reordered: the table is exactly what the add() history describes
RECURSIVE Replay(_, _)
Replay(h, acc) == IF h = <<>> THEN acc
                  ELSE Replay(Tail(h), InsertAt(acc, Head(h).idx, Head(h).id))
OrderPreserved == [k \in DOMAIN table |-> table[k].id] = Replay(hist, <<>>)
                  \* (written as a function comparison: both are sequences over 1..Len(table))

NotFoundIff == pc = "done" /\ exec = <<>> =>
                 (ret.status = 404 <=> \A k \in 1..Len(table) : ~PathMatches(table[k], req))

TypeOK == pc \in {"build", "loop", "done"} /\ i \in 1..(MaxRoutes + 1)

(****************************** emission ***********************************)
\* one record per routing table: the add() history plus the declarative answer for EVERY request
\* of the catalogue (the loop model above is checked equal to it by TLC)
AllReqs == {[path |-> p, pathv |-> Paths[p], method |-> m, trail |-> PTrail(p)] : p \in ReqPaths, m \in ReqMethods}
ReqSeq == LET RECURSIVE ToSeq(_)
              ToSeq(S) == IF S = {} THEN <<>> ELSE LET x == CHOOSE y \in S : TRUE IN <<x>> \o ToSeq(S \ {x})
          IN ToSeq(AllReqs)
EmitTable ==
    (pc = "build" /\ Len(table) >= 1) =>
       PrintT(<<"EMIT", ToJson([table |-> table, hist |-> hist,
                                 answers |-> [k \in 1..Len(ReqSeq) |->
                                     [q |-> ReqSeq[k], a |-> Answer(table, ReqSeq[k])]]])>>)
=============================================================================
