------------------------------ MODULE Threads ------------------------------
(***************************************************************************)
(* C12: concurrent requests on one Application do not interfere.           *)
(*                                                                         *)
(* N request threads execute the per-request program of                    *)
(* Application._dispatch_wsgi / dispatch / the generated chain as a        *)
(* sequence of labelled atomic steps over PROCESS-LOCAL variables; the     *)
(* only shared objects are the request-id counter (an atomic               *)
(* fetch-and-increment: itertools.count under the GIL) and the immutable   *)
(* application.  The constant Hazard switches in deliberately broken       *)
(* variants (a per-request value cached on a shared object) which TLC must *)
(* refute - the non-vacuity self test of the invariants.                   *)
(***************************************************************************)
EXTENDS Naturals, Sequences, FiniteSets, TLC

CONSTANTS Procs,        \* request threads
          ReqOf,        \* [Procs -> request id]  (what each thread asks for)
          Hazard        \* "none" | "paramsOnRoute" | "errorOnHandler" | "nonAtomicCounter"

\* the sequential meaning of a request: parameters bound from the URL, the value the providing
\* middleware derives from the request, whether the endpoint fails
ParamsOf(r) == <<"params", r>>
TokenOf(r) == <<"token", r>>
Fails(r) == r \in {"boom1", "boom2"}
\* requests answered without reaching middleware/endpoint values of their own: 404, 405, slash redirect
Fixed(r) == r \in {"nf", "na", "redir", "redir2", "dna", "nfh", "nfj"}
ErrorOf(r) == <<"error", r>>

(* --algorithm Requests {
  variables reqCounter = 0,
            routeCache = <<"none">>,      \* hazard slot: something cached on the shared route object
            handlerCache = <<"none">>,    \* hazard slot: something cached on the shared error handler
            resp = [p \in Procs |-> <<"pending">>],
            ids = [p \in Procs |-> 0];

  process (t \in Procs)
    variables rid = 0, tmp = 0, params = <<"unset">>, token = <<"unset">>, err = <<"unset">>, seen = <<"unset">>;
  {
   AssignId:    \* request.request_id = next(_REQ_ID_ITER)
      if (Hazard = "nonAtomicCounter") { tmp := reqCounter; }
      else { rid := reqCounter + 1; reqCounter := reqCounter + 1; };
   AssignId2:
      if (Hazard = "nonAtomicCounter") { rid := tmp + 1; reqCounter := tmp + 1; };
      ids[self] := rid;
   Match:       \* route.match_path(url_path): the parameters of THIS request
      if (Fixed(ReqOf[self])) { goto Respond; };
   Match2:
      if (Hazard = "paramsOnRoute") { routeCache := ParamsOf(ReqOf[self]); }
      else { params := ParamsOf(ReqOf[self]); };
   MwProvide:   \* the providing middleware derives a value from the request and calls next(token=...)
      if (Hazard = "paramsOnRoute") { params := routeCache; };
      token := TokenOf(ReqOf[self]);
   Endpoint:    \* the endpoint receives its arguments
      seen := <<params, token, rid>>;
      if (Fails(ReqOf[self])) {
         if (Hazard = "errorOnHandler") { handlerCache := ErrorOf(ReqOf[self]); }
         else { err := ErrorOf(ReqOf[self]); };
      };
   ErrorRender: \* error_handler.uncaught_to_response / render_error (only for failing requests)
      if (Fails(ReqOf[self]) /\ Hazard = "errorOnHandler") { err := handlerCache; };
   Respond:
      resp[self] := IF Fixed(ReqOf[self]) THEN <<"fixed", ReqOf[self]>>
                    ELSE IF Fails(ReqOf[self]) THEN <<"500", err>> ELSE <<"200", seen[1], seen[2]>>;
  }
} *)
\* BEGIN TRANSLATION
VARIABLES pc, reqCounter, routeCache, handlerCache, resp, ids, rid, tmp, 
          params, token, err, seen

vars == << pc, reqCounter, routeCache, handlerCache, resp, ids, rid, tmp, 
           params, token, err, seen >>

ProcSet == (Procs)

Init == (* Global variables *)
        /\ reqCounter = 0
        /\ routeCache = <<"none">>
        /\ handlerCache = <<"none">>
        /\ resp = [p \in Procs |-> <<"pending">>]
        /\ ids = [p \in Procs |-> 0]
        (* Process t *)
        /\ rid = [self \in Procs |-> 0]
        /\ tmp = [self \in Procs |-> 0]
        /\ params = [self \in Procs |-> <<"unset">>]
        /\ token = [self \in Procs |-> <<"unset">>]
        /\ err = [self \in Procs |-> <<"unset">>]
        /\ seen = [self \in Procs |-> <<"unset">>]
        /\ pc = [self \in ProcSet |-> "AssignId"]

AssignId(self) == /\ pc[self] = "AssignId"
                  /\ IF Hazard = "nonAtomicCounter"
                        THEN /\ tmp' = [tmp EXCEPT ![self] = reqCounter]
                             /\ UNCHANGED << reqCounter, rid >>
                        ELSE /\ rid' = [rid EXCEPT ![self] = reqCounter + 1]
                             /\ reqCounter' = reqCounter + 1
                             /\ tmp' = tmp
                  /\ pc' = [pc EXCEPT ![self] = "AssignId2"]
                  /\ UNCHANGED << routeCache, handlerCache, resp, ids, params, 
                                  token, err, seen >>

AssignId2(self) == /\ pc[self] = "AssignId2"
                   /\ IF Hazard = "nonAtomicCounter"
                         THEN /\ rid' = [rid EXCEPT ![self] = tmp[self] + 1]
                              /\ reqCounter' = tmp[self] + 1
                         ELSE /\ TRUE
                              /\ UNCHANGED << reqCounter, rid >>
                   /\ ids' = [ids EXCEPT ![self] = rid'[self]]
                   /\ pc' = [pc EXCEPT ![self] = "Match"]
                   /\ UNCHANGED << routeCache, handlerCache, resp, tmp, params, 
                                   token, err, seen >>

Match(self) == /\ pc[self] = "Match"
               /\ IF Fixed(ReqOf[self])
                     THEN /\ pc' = [pc EXCEPT ![self] = "Respond"]
                     ELSE /\ pc' = [pc EXCEPT ![self] = "Match2"]
               /\ UNCHANGED << reqCounter, routeCache, handlerCache, resp, ids, 
                               rid, tmp, params, token, err, seen >>

Match2(self) == /\ pc[self] = "Match2"
                /\ IF Hazard = "paramsOnRoute"
                      THEN /\ routeCache' = ParamsOf(ReqOf[self])
                           /\ UNCHANGED params
                      ELSE /\ params' = [params EXCEPT ![self] = ParamsOf(ReqOf[self])]
                           /\ UNCHANGED routeCache
                /\ pc' = [pc EXCEPT ![self] = "MwProvide"]
                /\ UNCHANGED << reqCounter, handlerCache, resp, ids, rid, tmp, 
                                token, err, seen >>

MwProvide(self) == /\ pc[self] = "MwProvide"
                   /\ IF Hazard = "paramsOnRoute"
                         THEN /\ params' = [params EXCEPT ![self] = routeCache]
                         ELSE /\ TRUE
                              /\ UNCHANGED params
                   /\ token' = [token EXCEPT ![self] = TokenOf(ReqOf[self])]
                   /\ pc' = [pc EXCEPT ![self] = "Endpoint"]
                   /\ UNCHANGED << reqCounter, routeCache, handlerCache, resp, 
                                   ids, rid, tmp, err, seen >>

Endpoint(self) == /\ pc[self] = "Endpoint"
                  /\ seen' = [seen EXCEPT ![self] = <<params[self], token[self], rid[self]>>]
                  /\ IF Fails(ReqOf[self])
                        THEN /\ IF Hazard = "errorOnHandler"
                                   THEN /\ handlerCache' = ErrorOf(ReqOf[self])
                                        /\ err' = err
                                   ELSE /\ err' = [err EXCEPT ![self] = ErrorOf(ReqOf[self])]
                                        /\ UNCHANGED handlerCache
                        ELSE /\ TRUE
                             /\ UNCHANGED << handlerCache, err >>
                  /\ pc' = [pc EXCEPT ![self] = "ErrorRender"]
                  /\ UNCHANGED << reqCounter, routeCache, resp, ids, rid, tmp, 
                                  params, token >>

ErrorRender(self) == /\ pc[self] = "ErrorRender"
                     /\ IF Fails(ReqOf[self]) /\ Hazard = "errorOnHandler"
                           THEN /\ err' = [err EXCEPT ![self] = handlerCache]
                           ELSE /\ TRUE
                                /\ err' = err
                     /\ pc' = [pc EXCEPT ![self] = "Respond"]
                     /\ UNCHANGED << reqCounter, routeCache, handlerCache, 
                                     resp, ids, rid, tmp, params, token, seen >>

Respond(self) == /\ pc[self] = "Respond"
                 /\ resp' = [resp EXCEPT ![self] = IF Fixed(ReqOf[self]) THEN <<"fixed", ReqOf[self]>>
                                                   ELSE IF Fails(ReqOf[self]) THEN <<"500", err[self]>> ELSE <<"200", seen[self][1], seen[self][2]>>]
                 /\ pc' = [pc EXCEPT ![self] = "Done"]
                 /\ UNCHANGED << reqCounter, routeCache, handlerCache, ids, 
                                 rid, tmp, params, token, err, seen >>

t(self) == AssignId(self) \/ AssignId2(self) \/ Match(self) \/ Match2(self)
              \/ MwProvide(self) \/ Endpoint(self) \/ ErrorRender(self)
              \/ Respond(self)

(* Allow infinite stuttering to prevent deadlock on termination. *)
Terminating == /\ \A self \in ProcSet: pc[self] = "Done"
               /\ UNCHANGED vars

Next == (\E self \in Procs: t(self))
           \/ Terminating

Spec == Init /\ [][Next]_vars

Termination == <>(\A self \in ProcSet: pc[self] = "Done")

\* END TRANSLATION

\* request assignments used by the schedule-replay leg (c12_tlcsched.py)
Req3b == [p \in {1, 2, 3} |-> CASE p = 1 -> "a" [] p = 2 -> "b" [] p = 3 -> "nf"]
Req3c == [p \in {1, 2, 3} |-> CASE p = 1 -> "c" [] p = 2 -> "redir" [] p = 3 -> "boom1"]
Req3d == [p \in {1, 2, 3} |-> CASE p = 1 -> "dna" [] p = 2 -> "a" [] p = 3 -> "redir2"]
Req3 == [p \in {1, 2, 3} |-> CASE p = 1 -> "a" [] p = 2 -> "boom1" [] p = 3 -> "boom2"]
Req4 == [p \in {1, 2, 3, 4} |-> CASE p = 1 -> "a" [] p = 2 -> "boom1" [] p = 3 -> "nf" [] p = 4 -> "boom2"]
Done == \A p \in Procs : pc[p] = "Done"
\* every request gets the response it would get if it were served alone
Alone(p) == IF Fixed(ReqOf[p]) THEN <<"fixed", ReqOf[p]>> ELSE IF Fails(ReqOf[p]) THEN <<"500", ErrorOf(ReqOf[p])>> ELSE <<"200", ParamsOf(ReqOf[p]), TokenOf(ReqOf[p])>>
NonInterference == \A p \in Procs : pc[p] = "Done" => resp[p] = Alone(p)
UniqueIds == \A p, q \in Procs : (p # q /\ pc[p] \notin {"AssignId", "AssignId2"} /\ pc[q] \notin {"AssignId", "AssignId2"}) => ids[p] # ids[q]
=============================================================================
