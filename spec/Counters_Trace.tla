--------------------------- MODULE Counters_Trace ---------------------------
(* Trace validation for Counters: recorded request histories against the    *)
(* real StatsMiddleware.  Events: {a:"req", q:{k,o1,o2}} and                 *)
(* {a:"read"|"reset", table:[[route,bucket,count],...]} (observed table).   *)
EXTENDS Counters, IOUtils

Traces == ndJsonDeserialize(IOEnv.TRACE_FILE)
VARIABLES tid, l
tvars == <<vars, tid, l>>

Ev == Traces[tid].ev
ObsTable(e) == {<<e.table[i][1], e.table[i][2], e.table[i][3]>> : i \in DOMAIN e.table}

TInit == tid \in 1..Len(Traces) /\ l = 0 /\ Init

TNext == /\ l < Len(Ev)
         /\ l' = l + 1 /\ tid' = tid
         /\ LET e == Ev[l + 1] IN
              \/ e.a = "req" /\ e.q \in Requests /\ Req(e.q)
              \/ e.a = "read" /\ \E incl \in BOOLEAN : ReadT(incl, ObsTable(e))
              \/ e.a = "reset" /\ \E incl \in BOOLEAN : ResetT(incl, ObsTable(e))

TSpec == TInit /\ [][TNext]_tvars
Accept == (l = Len(Ev)) => PrintT(<<"ACCEPT", Traces[tid].tid>>)
At == PrintT(<<"AT", Traces[tid].tid, l>>)
=============================================================================
