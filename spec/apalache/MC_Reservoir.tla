---------------------------- MODULE MC_Reservoir ----------------------------
(***************************************************************************)
(* Typed, self-contained restatement of the algorithm layer of             *)
(* Reservoir.tla ("fixed" variant) for Apalache: an INDUCTIVE invariant    *)
(* for unbounded capacity and unbounded number of operations               *)
(*   apalache-mc check --init=IndInit --inv=IndInv --length=1 ...          *)
(* (Init => IndInv is checked with --init=Init --inv=IndInv --length=0).   *)
(* Values are the ordinals of the add() calls, as in Reservoir.tla.        *)
(***************************************************************************)
EXTENDS Integers, Sequences, Apalache

VARIABLES
  \* @type: Seq(Int);
  data,
  \* @type: Int;
  cap,
  \* @type: Int;
  total,
  \* @type: Bool;
  err

MaxLen == 4   \* bound on Len(data) for the symbolic sequence generator only (cap and total are unbounded)

Init == cap \in 0..3 /\ data = <<>> /\ total = 0 /\ err = FALSE

\* Reservoir.add (fixed): append while fewer values than capacity, else replace data[idx] when idx < cap
Add(idx) ==
  LET v == total + 1 IN
  /\ total' = total + 1
  /\ cap' = cap
  /\ IF Len(data) < cap
     THEN data' = Append(data, v) /\ err' = err
     ELSE IF idx < cap
          THEN IF idx < Len(data)
               THEN data' = [data EXCEPT ![idx + 1] = v] /\ err' = err
               ELSE data' = data /\ err' = TRUE
          ELSE data' = data /\ err' = err

Resize(n) ==
  /\ cap' = n
  /\ data' = IF n >= Len(data) THEN data ELSE SubSeq(data, 1, n)
  /\ UNCHANGED <<total, err>>

Next == \/ \E idx \in Int : idx >= 0 /\ idx <= total + 1 /\ Add(idx)
        \/ \E n \in Int : n >= 0 /\ Resize(n)

\* the property, as an inductive invariant
IndInv == /\ cap >= 0 /\ total >= 0
          /\ Len(data) <= cap
          /\ \A i \in DOMAIN data : data[i] >= 1 /\ data[i] <= total     \* only values that were added
          /\ err = FALSE

\* arbitrary state satisfying the invariant (Gen only bounds the sequence length explored symbolically)
IndInit == /\ data = Gen(MaxLen) /\ cap = Gen(1) /\ total = Gen(1) /\ err = Gen(1)
           /\ IndInv
=============================================================================
