----------------------------- MODULE AppHistory -----------------------------
(***************************************************************************)
(* C11: binding is non-destructive, applications are isolated, add() is    *)
(* atomic.  A world of a few Application objects and shared Route objects; *)
(* a history of operations: construct (with an initial route list), add a  *)
(* Route object / a tuple / a sub-application at an index, with operations *)
(* that FAIL (unresolvable dependency, name conflict, invalid pattern) at  *)
(* any position of a multi-route entry.                                    *)
(*                                                                         *)
(* Route kinds:  plain  "/x"     no requirements                           *)
(*               needs  "/y"     endpoint requires resource "need"         *)
(*               bindv  "/<v>"   URL binding v (conflicts with resource v) *)
(*               badpat          tuple with an invalid pattern             *)
(* An entry of a routing table = [rid, kind, pfx, res]: route identity,    *)
(* kind, prefixes accumulated by embeddings (outermost first), resources   *)
(* carried along from applications it was bound to before.                 *)
(***************************************************************************)
EXTENDS Naturals, Sequences, FiniteSets, TLC, Json

CONSTANTS AppIds, RouteIds, RouteKind, Prefixes, MaxOps, MaxTable

Kinds == {"plain", "needs", "bindv"}
ResSets == SUBSET {"need", "v"}

VARIABLES apps,     \* [AppIds -> [alive, res, table]]
          fresh,    \* next identity for routes created from tuples
          ops       \* history, for emission

vars == <<apps, fresh, ops>>
view == <<apps, Len(ops)>>    \* VIEW for exhaustive runs: history and identity counter hidden
Dead == [alive |-> FALSE, res |-> {}, table |-> <<>>]
Init == apps = [a \in AppIds |-> Dead] /\ fresh = 100 /\ ops = <<>>

\* emission view: after EVERY operation, the expected table of EVERY application
ViewOf(w) == [a \in AppIds |-> [alive |-> w[a].alive,
                                table |-> [j \in DOMAIN w[a].table |-> [rid |-> w[a].table[j].rid, kind |-> w[a].table[j].kind,
                                                                         pfx |-> w[a].table[j].pfx]]]]
RK1 == [r1 |-> "plain", r2 |-> "needs", r3 |-> "bindv"]

\* can `entry` be bound into an application with resources `res`?
BindOK(res, e) ==
    LET avail == res \cup e.res
    IN /\ (e.kind = "needs" => "need" \in avail)
       /\ (e.kind = "bindv" => "v" \notin avail)
       /\ e.kind # "badpat"
Rebound(res, e, pfx) == [e EXCEPT !.pfx = pfx \o @, !.res = @ \cup res]

\* the entries an item expands to when added to application a (before checking)
Expand(a, item) ==
    CASE item.k = "route" -> << [rid |-> item.r, kind |-> RouteKind[item.r], pfx |-> <<>>, res |-> {}] >>
      [] item.k = "tuple" -> << [rid |-> fresh, kind |-> item.kind, pfx |-> <<>>, res |-> {}] >>
      [] item.k = "sub"   -> [j \in DOMAIN apps[item.b].table |-> apps[item.b].table[j]]
PfxOf(item) == IF item.k = "sub" THEN <<item.pfx>> ELSE <<>>
AllOK(a, item) == \A j \in DOMAIN Expand(a, item) : BindOK(apps[a].res, Expand(a, item)[j])
Bound(a, item) == [j \in DOMAIN Expand(a, item) |-> Rebound(apps[a].res, Expand(a, item)[j], PfxOf(item))]
Insert(t, idx, new) == SubSeq(t, 1, idx) \o new \o SubSeq(t, idx + 1, Len(t))

Items == [k : {"route"}, r : RouteIds] \cup [k : {"tuple"}, kind : Kinds \cup {"badpat"}]
         \cup [k : {"sub"}, b : AppIds, pfx : Prefixes]

\* Application(routes=[...], resources=res): all-or-nothing
NewApp(a, res, items) ==
    /\ ~apps[a].alive /\ Len(ops) < MaxOps
    /\ \A j \in DOMAIN items : items[j].k = "sub" => (apps[items[j].b].alive /\ items[j].b # a)
    /\ LET empty == [alive |-> TRUE, res |-> res, table |-> <<>>]
           w0 == [apps EXCEPT ![a] = empty]
           \* fold the adds over a scratch world
           RECURSIVE Fold(_, _, _)
           Fold(w, k, f) ==
              IF k > Len(items) THEN [ok |-> TRUE, w |-> w]
              ELSE LET it == items[k]
                       exp == CASE it.k = "route" -> << [rid |-> it.r, kind |-> RouteKind[it.r], pfx |-> <<>>, res |-> {}] >>
                                [] it.k = "tuple" -> << [rid |-> f, kind |-> it.kind, pfx |-> <<>>, res |-> {}] >>
                                [] it.k = "sub" -> w[it.b].table
                       ok == \A j \in DOMAIN exp : BindOK(res, exp[j])
                       new == [j \in DOMAIN exp |-> Rebound(res, exp[j], IF it.k = "sub" THEN <<it.pfx>> ELSE <<>>)]
                   IN IF ~ok THEN [ok |-> FALSE, w |-> w]
                      ELSE Fold([w EXCEPT ![a].table = @ \o new], k + 1, IF it.k = "tuple" THEN f + 1 ELSE f)
           r == Fold(w0, 1, fresh)
           good == r.ok /\ Len(r.w[a].table) <= MaxTable
           \* if the constructor raised, no application came into being
           newApps == IF good THEN r.w ELSE apps
       IN /\ (r.ok => Len(r.w[a].table) <= MaxTable)
          /\ apps' = newApps
          /\ ops' = Append(ops, [op |-> "new", a |-> a, res |-> res, items |-> items, idx |-> 0,
                                 ok |-> good, view |-> ViewOf(newApps)])
    /\ fresh' = fresh + Len(items)

\* app.add(item, index=idx)
Add(a, item, idx) ==
    /\ apps[a].alive /\ Len(ops) < MaxOps
    /\ (item.k = "sub" => apps[item.b].alive /\ item.b # a)
    /\ idx \in 0..Len(apps[a].table)
    /\ Len(apps[a].table) + Len(Expand(a, item)) <= MaxTable
    /\ LET newApps == IF AllOK(a, item)
                      THEN [apps EXCEPT ![a].table = Insert(@, idx, Bound(a, item))]
                      ELSE apps                  \* add() raised: nothing changed anywhere
       IN /\ apps' = newApps
          /\ ops' = Append(ops, [op |-> "add", a |-> a, res |-> {}, items |-> <<item>>, idx |-> idx,
                                 ok |-> AllOK(a, item), view |-> ViewOf(newApps)])
    /\ fresh' = fresh + 1

Next == \/ \E a \in AppIds, res \in ResSets, items \in UNION {[1..n -> Items] : n \in 0..2} : NewApp(a, res, items)
        \/ \E a \in AppIds, item \in Items, idx \in 0..MaxTable : Add(a, item, idx)
Spec == Init /\ [][Next]_vars

(****************************** properties *********************************)
LastOp == ops'[Len(ops')]
\* a failing add() / constructor leaves every application exactly as it was
FailureIsNoOp == [][ ~LastOp.ok => apps' = apps ]_vars
\* an operation on application a never changes another application (embedding leaves the inner one alone)
OthersUntouched == [][ \A b \in AppIds : b # LastOp.a => apps'[b] = apps[b] ]_vars
\* add() inserts contiguously at the requested index and keeps the relative order of everything else
Contiguous == [][ (LastOp.op = "add" /\ LastOp.ok) =>
                    LET a == LastOp.a
                        old == apps[a].table
                        new == apps'[a].table
                        n == Len(new) - Len(old)
                    IN /\ n >= 0
                       /\ SubSeq(new, 1, LastOp.idx) = SubSeq(old, 1, LastOp.idx)
                       /\ SubSeq(new, LastOp.idx + n + 1, Len(new)) = SubSeq(old, LastOp.idx + 1, Len(old)) ]_vars
\* an entry is bound only where its requirements hold
TablesSound == \A a \in AppIds : \A j \in DOMAIN apps[a].table :
                   LET e == apps[a].table[j] IN (e.kind = "needs" => "need" \in e.res) /\ (e.kind = "bindv" => "v" \notin e.res)
TypeOK == \A a \in AppIds : Len(apps[a].table) <= MaxTable

Emit == (Len(ops) = MaxOps) => PrintT(<<"EMIT", ToJson([ops |-> ops, kinds |-> RouteKind])>>)
=============================================================================
