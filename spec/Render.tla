------------------------------- MODULE Render -------------------------------
(***************************************************************************)
(* C17: the basic and JSON renderers accept every endpoint result.         *)
(*                                                                         *)
(* A decision model: value class x format query parameter x Accept class   *)
(* -> the set of permitted outcomes [status, label, body relation].        *)
(* Where the property is silent the set has several members.               *)
(***************************************************************************)
EXTENDS Naturals, Sequences, FiniteSets, TLC, Json

CONSTANTS Classes, Fmts, Accepts

TextClasses == {"TextJsonObj", "TextJsonArr", "BytesJsonObj", "TextHtml", "BytesHtml", "TextPlain", "BytesPlain", "TextEmpty",
                "TextBraceNotJson", "TextJsonPadded",
                "TextMismatchedBrackets"}    \* opens with one kind of bracket and closes with the other: not JSON, plain text
ScalarClasses == {"Int", "Float", "Bool", "None", "PlainObject", "Generator"}
NativeClasses == {"FlatMap", "SeqScalars", "SeqFlatMaps", "SeqFlatSeqs", "Nested", "EmptySeq", "EmptyMap", "Tuple",
                  "NonDictMapping"}   \* string-keyed mappings that are not dict subclasses (MappingProxyType, UserDict, ChainMap)   \* JSON-native data
DegradedClasses == {"WithSet", "WithDatetime", "WithToDict", "WithAsDict", "WithPlainObject", "SetValue", "BytesInside"}  \* need help
SerClasses == NativeClasses \cup DegradedClasses
\* shapes the HTML-table clause covers: flat mappings, sequences of scalars, of flat mappings, of flat sequences
TabularClasses == {"FlatMap", "SeqScalars", "SeqFlatMaps", "SeqFlatSeqs"}
AllClasses == TextClasses \cup ScalarClasses \cup SerClasses

Labels == {"application/json", "text/html", "text/plain"}

\* does the request ask for HTML?  "yes" / "maybe" (a wildcard Accept) / "no"
AsksHtml(fmt, acc) == IF fmt = "html" THEN "yes" ELSE IF fmt = "json" THEN "no"
                      ELSE CASE acc \in {"html", "htmlq"} -> "yes" [] acc = "star" -> "maybe" [] OTHER -> "no"

\* permitted (label, body relation) pairs; status is always 200
Outcomes(c, fmt, acc) ==
    IF c \in {"TextJsonObj", "TextJsonArr", "BytesJsonObj"} THEN {<<"application/json", "verbatim">>}
    ELSE IF c \in {"TextHtml", "BytesHtml"} THEN {<<"text/html", "verbatim">>}
    ELSE IF c \in {"TextPlain", "BytesPlain", "TextEmpty", "TextMismatchedBrackets"} THEN {<<"text/plain", "verbatim">>}
    ELSE IF c \in {"TextBraceNotJson", "TextJsonPadded"} THEN {<<"application/json", "verbatim">>, <<"text/plain", "verbatim">>}
    ELSE IF c \in ScalarClasses THEN {<<l, "any">> : l \in Labels}
    ELSE \* mappings and sequences
         LET json == IF c \in NativeClasses THEN <<"application/json", "parses-to-value">> ELSE <<"application/json", "parses">>
             html == <<"text/html", "table">>
         IN CASE AsksHtml(fmt, acc) = "no" -> {json}
              [] AsksHtml(fmt, acc) = "maybe" -> {json, html}
              [] AsksHtml(fmt, acc) = "yes" -> IF c \in TabularClasses THEN {html}     \* a tabular shape: the table it is
                                               ELSE {html, json}                  \* JSON when the value has no tabular shape

VARIABLES c, fmt, acc
vars == <<c, fmt, acc>>
Init == c \in Classes /\ fmt \in Fmts /\ acc \in Accepts
Spec == Init /\ [][UNCHANGED vars]_vars
Total == Outcomes(c, fmt, acc) # {}
TextIgnoresNegotiation == c \in TextClasses => Outcomes(c, fmt, acc) = Outcomes(c, "absent", "absent")
JsonWhenNotAskedForHtml == (c \in SerClasses /\ AsksHtml(fmt, acc) = "no") => \A o \in Outcomes(c, fmt, acc) : o[1] = "application/json"
Emit == PrintT(<<"EMIT", ToJson([c |-> c, fmt |-> fmt, acc |-> acc, outcomes |-> Outcomes(c, fmt, acc)])>>)

\* the JSON renderers: render_json (strict), render_json_dev, JSONP, streaming
JsonRenderOutcome(kind, cls) ==
    IF cls \in NativeClasses THEN "parses-to-value"
    ELSE IF kind \in {"dev", "jsonp_dev", "stream_dev"} THEN "parses"      \* degrades unknown objects to their repr
    ELSE "unspecified"
(* verdict on an observation (Render_Trace) *)
ObsOK(o) == /\ o.status = 200
            /\ \E out \in Outcomes(o.c, o.fmt, o.acc) :
                  /\ out[1] = o.label
                  /\ CASE out[2] = "verbatim" -> o.verbatim
                       [] out[2] = "any" -> TRUE
                       [] out[2] = "parses" -> o.parses
                       [] out[2] = "parses-to-value" -> o.parses /\ o.roundtrip
                       [] out[2] = "table" -> o.has_table
=============================================================================
