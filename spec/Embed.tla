------------------------------- MODULE Embed -------------------------------
(***************************************************************************)
(* C10: embedding a sub-application == declaring its routes flat.          *)
(*                                                                         *)
(* A chain of up to three applications (level 1 = outermost = serving,     *)
(* level D = innermost).  Level k < D embeds level k+1 under a prefix at   *)
(* position subAt of its own route list.  Flatten transcribes              *)
(* SubApplication.bind_all / BoundRoute.__init__ (re-binding): prefixed    *)
(* patterns, merged middlewares, resources, slash mode, renderer, error    *)
(* handling.  The behaviour of the nested application is DEFINED as        *)
(* first-match dispatch over the flattened table (PathMatch).              *)
(***************************************************************************)
EXTENDS Naturals, Sequences, FiniteSets, TLC, Json, PathMatch

CONSTANTS MaxDepth, MaxRoutes,     \* levels, own routes per level
          ResNames,                \* resource names
          MwTypes,                 \* middleware types (all unique + reorderable, the default)
          MwLists,                 \* allowed middleware lists per level / route (set of sequences)
          Slashes, PatIds, Prefixes, RenderKinds,
          Reuses                   \* "none" | "before" | "after": the application object of a level is ALSO embedded into an
                                   \* unrelated parent (own render factory, resources, middlewares, slash mode) before / after
                                   \* it is embedded into the chain.  Binding is a pure function of (application, route):
                                   \* the flattening below does not mention `reuse`, i.e. the other embedding has no effect.

L(v) == [k |-> "lit", v |-> v]
B(k, n) == [k |-> k, v |-> n]
PatEls(p) == CASE p = "rootb" -> <<>>          \* the embedded application's ROOT route "/": under a prefix it is the branch "/p/"
               [] p = "x" -> <<L("x")>> [] p = "yb" -> <<L("y")>> [] p = "v" -> <<B("one", "v")>> [] p = "vb" -> <<B("one", "v")>>
               [] p = "xy" -> <<L("x"), L("y")>>
PatBranch(p) == p \in {"yb", "vb", "rootb"}
PrefixEls(p) == CASE p = "p" -> <<L("p")>> [] p = "pq" -> <<L("p"), L("q")>> [] p = "root" -> <<>> [] p = "x" -> <<L("x")>>

RouteDecl == [pat : PatIds, rk : RenderKinds, mws : MwLists]
LevelAttr == [res : SUBSET ResNames, mws : MwLists, slash : Slashes, fact : BOOLEAN,
              prefix : Prefixes, inherit : BOOLEAN, rebind : BOOLEAN]

\* values for config files
MwListsA == {<<>>, <<"A">>, <<"B">>, <<"A", "B">>, <<"B", "A">>}
MwListsQ == {<<>>, <<"A">>}

VARIABLES depth, attrs, routes, subAt, pc, reuse
vars == <<depth, attrs, routes, subAt, pc, reuse>>

DefaultAttr == [res |-> {}, mws |-> <<>>, slash |-> "redirect", fact |-> FALSE, prefix |-> "p", inherit |-> TRUE, rebind |-> FALSE]

Init == /\ depth \in 1..MaxDepth
        /\ attrs = [k \in 1..MaxDepth |-> DefaultAttr]
        /\ routes = [k \in 1..MaxDepth |-> <<>>]
        /\ subAt = [k \in 1..MaxDepth |-> 0]
        /\ reuse = [k \in 1..MaxDepth |-> "none"]
        /\ pc = [k \in 1..MaxDepth |-> "attrs"]      \* per level: "attrs" -> "routes" -> "done"

SetAttrs(k, a) == /\ k <= depth /\ pc[k] = "attrs" /\ (\A j \in 1..(k - 1) : pc[j] = "done")
                  \* the innermost level embeds nothing: its embedding attributes are irrelevant
                  /\ (k = depth => a.prefix = DefaultAttr.prefix /\ a.inherit = DefaultAttr.inherit /\ a.rebind = DefaultAttr.rebind)
                  /\ attrs' = [attrs EXCEPT ![k] = a] /\ pc' = [pc EXCEPT ![k] = "routes"]
                  /\ UNCHANGED <<depth, routes, subAt, reuse>>
AddRoute(k, d) == /\ k <= depth /\ pc[k] = "routes" /\ Len(routes[k]) < MaxRoutes
                  /\ routes' = [routes EXCEPT ![k] = Append(@, d)]
                  /\ UNCHANGED <<depth, attrs, subAt, pc, reuse>>
Close(k, at, u) == /\ k <= depth /\ pc[k] = "routes" /\ at \in 0..Len(routes[k])
                /\ (k = depth => at = 0)
                /\ (k = 1 => u = "none")          \* the serving application is embedded nowhere
                /\ subAt' = [subAt EXCEPT ![k] = at] /\ pc' = [pc EXCEPT ![k] = "done"]
                /\ reuse' = [reuse EXCEPT ![k] = u]
                /\ UNCHANGED <<depth, attrs, routes>>
Next == \/ \E k \in 1..MaxDepth, a \in LevelAttr : SetAttrs(k, a)
        \/ \E k \in 1..MaxDepth, d \in RouteDecl : AddRoute(k, d)
        \/ \E k \in 1..MaxDepth, at \in 0..MaxRoutes, u \in Reuses : Close(k, at, u)
Spec == Init /\ [][Next]_vars
Built == \A k \in 1..depth : pc[k] = "done"

(******************************* flattening ********************************)
\* merge of unique+reorderable middleware lists: outer first, inner types already present are dropped
RECURSIVE MergeMw(_, _)
MergeMw(merged, old) == IF old = <<>> THEN merged
                        ELSE IF \E j \in DOMAIN merged : merged[j].t = Head(old).t THEN MergeMw(merged, Tail(old))
                        ELSE MergeMw(Append(merged, Head(old)), Tail(old))
TagMws(l, lvl, ri) == [j \in DOMAIN l |-> [t |-> l[j], lvl |-> lvl, r |-> ri, i |-> j]]

\* first binding of a route declared at level k (index ri)
Bind0(k, ri) ==
    LET d == routes[k][ri]
        a == attrs[k]
    IN [id |-> <<k, ri>>,
        els |-> PatEls(d.pat), branch |-> PatBranch(d.pat),
        mws |-> MergeMw(TagMws(a.mws, k, 0), TagMws(d.mws, k, ri)),
        resLvls |-> [nm \in ResNames |-> IF nm \in a.res THEN {k} ELSE {}],
        slash |-> a.slash,
        rk |-> d.rk,
        \* renderer after this binding: explicit callable / factory of this app applied to the arg / none
        render |-> CASE d.rk = "callable" -> [k |-> "callable", lvl |-> k]
                     [] d.rk = "arg" /\ a.fact -> [k |-> "fact", lvl |-> k]
                     [] OTHER -> [k |-> "noop", lvl |-> 0],
        facts |-> IF a.fact THEN <<k>> ELSE <<>>,      \* bound applications that have a render factory, innermost first
        eh |-> k]

\* re-binding an already bound route r into level k (embedding with prefix / inherit / rebind of level k)
Rebind(k, r) ==
    LET a == attrs[k]
        facts2 == IF a.fact THEN Append(r.facts, k) ELSE r.facts     \* most recently bound last
        bindRender == a.rebind \/ r.render.k = "noop"
        newest == facts2[Len(facts2)]
    IN [r EXCEPT !.els = PrefixEls(a.prefix) \o r.els,
                 !.mws = MergeMw(TagMws(a.mws, k, 0), r.mws),
                 !.resLvls = [nm \in ResNames |-> IF nm \in a.res THEN r.resLvls[nm] \cup {k} ELSE r.resLvls[nm]],
                 !.slash = IF a.inherit THEN a.slash ELSE r.slash,
                 !.render = IF r.rk = "callable" THEN r.render
                            ELSE IF bindRender /\ facts2 # <<>> /\ r.rk = "arg" THEN [k |-> "fact", lvl |-> newest]
                            ELSE r.render,
                 !.facts = facts2,
                 !.eh = k]

RECURSIVE Flat(_)
Flat(k) ==
    LET own == [ri \in 1..Len(routes[k]) |-> Bind0(k, ri)]
    IN IF k = depth THEN own
       ELSE LET inner == Flat(k + 1)
                sub == [j \in DOMAIN inner |-> Rebind(k, inner[j])]
            IN SubSeq(own, 1, subAt[k]) \o sub \o SubSeq(own, subAt[k] + 1, Len(own))

\* which value a resource name has for a flat route: the serving application's if it defines the name,
\* else the single inner level that defines it; 0 = undefined; 99 = defined by two inner levels only (not specified)
ResValue(r, nm) == IF 1 \in r.resLvls[nm] THEN 1
                   ELSE IF r.resLvls[nm] = {} THEN 0
                   ELSE IF Cardinality(r.resLvls[nm]) = 1 THEN CHOOSE l \in r.resLvls[nm] : TRUE
                   ELSE 99

Table == Flat(1)

(******************************** probes ***********************************)
\* canonical probe path of a flat route: literals as they are, bindings instantiated with "w"
ProbeSegs(r) == [j \in DOMAIN r.els |-> IF r.els[j].k = "lit" THEN r.els[j].v ELSE "w"]
\* a flat route answers a request path iff its pattern matches the segments and - in strict mode - the
\* trailing slash is exactly the pattern's
Takes(r, segs, trail) == Matches(r.els, segs) /\ (r.slash = "strict" => r.branch = trail)
\* first flat route that takes the probe (0 = none)
Answerer(t, segs, trail) ==
    IF \E j \in DOMAIN t : Takes(t[j], segs, trail)
    THEN CHOOSE j \in DOMAIN t : Takes(t[j], segs, trail) /\ \A i \in 1..(j - 1) : ~Takes(t[i], segs, trail)
    ELSE 0
\* what a probe at segs with/without trailing slash observes
Observe(t, segs, trail) ==
    LET j == Answerer(t, segs, trail)
    IN IF j = 0 THEN [k |-> "404", by |-> <<0, 0>>]
       ELSE LET r == t[j]
            IN IF r.branch /\ ~trail /\ r.slash = "redirect" THEN [k |-> "redirect", by |-> r.id]
               ELSE [k |-> "exec", by |-> r.id]

(****************************** properties *********************************)
\* prefix "/" (root) is neutral, order of routes is preserved, embedding never loses or duplicates a route
CountRoutes == LET RECURSIVE C(_)
                   C(k) == IF k > depth THEN 0 ELSE Len(routes[k]) + C(k + 1)
               IN C(1)
NoLossNoDup == Built => (Len(Table) = CountRoutes /\ \A i, j \in DOMAIN Table : i # j => Table[i].id # Table[j].id)
OrderKept == Built => \A i, j \in DOMAIN Table : (i < j /\ Table[i].id[1] = Table[j].id[1]) => Table[i].id[2] < Table[j].id[2]
OuterHandles == Built => \A j \in DOMAIN Table : Table[j].eh = 1
OuterMwsFirst == Built => \A j \in DOMAIN Table : \A a, b \in DOMAIN Table[j].mws :
                             a < b => Table[j].mws[a].lvl <= Table[j].mws[b].lvl
UniqueOnce == Built => \A j \in DOMAIN Table : \A a, b \in DOMAIN Table[j].mws :
                             a # b => Table[j].mws[a].t # Table[j].mws[b].t
ExplicitRenderWins == Built => \A j \in DOMAIN Table : Table[j].rk = "callable" => Table[j].render.k = "callable"
SlashIsOuterUnlessOptedOut == Built => \A j \in DOMAIN Table :
        (\A k \in 1..(Table[j].id[1] - 1) : attrs[k].inherit) => Table[j].slash = attrs[1].slash

FlatRec(r) == [id |-> r.id, els |-> r.els, branch |-> r.branch, mws |-> r.mws, slash |-> r.slash, render |-> r.render,
               rk |-> r.rk, eh |-> r.eh, res |-> [nm \in ResNames |-> ResValue(r, nm)],
               probe |-> ProbeSegs(r),
               obs |-> [plain |-> Observe(Table, ProbeSegs(r), r.branch),
                        flipped |-> Observe(Table, ProbeSegs(r), ~r.branch)]]
Emit == Built => PrintT(<<"EMIT", ToJson([depth |-> depth, attrs |-> attrs, routes |-> routes, subAt |-> subAt, reuse |-> reuse,
                                          table |-> [j \in DOMAIN Table |-> FlatRec(Table[j])]])>>)
=============================================================================
